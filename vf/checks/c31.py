"""C31 manifest queries report what the manifest declares (random manifest models -> axmlw -> zip -> APK(bytes, raw=True)).

Domain decisions (each can be challenged):
 * the manifest is what aapt would emit: root <manifest package=...> with the android namespace declared, framework attributes carry
   their resource id in the resource map, component elements sit under <application>.
 * package names have at least two dot-separated segments (Android refuses anything else).
 * Android's completion rule (PackageParser.buildClassName) applies to COMPONENT class names only: leading '.' -> package + name,
   no '.' at all -> package + '.' + name, otherwise unchanged.  Permission, feature and library names are plain strings and are never
   completed.
 * lists are compared as multisets (androguard collects tags through a set; order is not part of the statement); get_permissions()
   is compared as a set and must not contain duplicates.
 * numbers may be stored typed (TYPE_INT_DEC / TYPE_INT_HEX) or as strings; they are compared by value (int(x, 0)).
 * MAIN and LAUNCHER are always placed together in one intent-filter or not both on the same component (MAIN in one filter and LAUNCHER in
   another of the same activity is ambiguous between androguard and Android: not generated).
 * a launcher component with android:enabled="false" is not a main activity (androguard documents this; the launcher would not show it);
   kept in its own special pool and mechanism.
 * a non-numeric targetSdkVersion/minSdkVersion (pre-release codename): only the attribute string is compared, the effective target SDK is don't-care.
 * get_uses_implied_permission_list and get_details_permissions are not checked.
Feature partition: at most one special feature per case (SPECIALS); special=None is the clean pool.
"""
from collections import Counter

from vf.harness import exc_str
from vf.model import apkzip
from vf.model import axmlw as W

MOD = "vf.checks.c31"
A = W.ANDROID_NS
IDS = {"name": 0x01010003, "versionCode": 0x0101021b, "versionName": 0x0101021c, "minSdkVersion": 0x0101020c, "targetSdkVersion": 0x01010270,
       "maxSdkVersion": 0x01010271, "enabled": 0x0101000e, "required": 0x0101028e, "glEsVersion": 0x01010281, "targetActivity": 0x01010202,
       "label": 0x01010001, "icon": 0x01010002, "exported": 0x01010010, "permission": 0x01010006, "authorities": 0x01010018, "value": 0x01010024,
       "process": 0x01010011, "theme": 0x01010000}

SPECIALS = [None, None, None, None, "dotless-permission", "dotless-feature", "dotless-library", "attrs-without-namespace", "twin-plain-attrs", "stripped-attr-names",
            "disabled-launcher", "numbers-as-strings", "codename-sdk", "duplicate-permissions", "other-android-prefix", "hex-version-code", "no-resmap",
            "duplicate-components", "many-launchers"]

SEG = "abcdefghijklmnopqrstuvwxyz"
CLS = "ABCDEFGHIJKLMNOPQRSTUVWXYZ"
AOSP_PERMS = ["android.permission.INTERNET", "android.permission.CAMERA", "android.permission.READ_CONTACTS", "android.permission.WRITE_EXTERNAL_STORAGE",
              "android.permission.ACCESS_FINE_LOCATION", "com.android.vending.BILLING", "android.permission.READ_PHONE_STATE"]
FEATURES = ["android.hardware.camera", "android.hardware.touchscreen", "android.software.leanback", "android.hardware.type.watch", "android.hardware.bluetooth_le"]
LIBS = ["org.apache.http.legacy", "com.google.android.maps", "android.test.runner", "androidx.window.extensions"]


def seg(rng, lo=1, hi=8):
    return "".join(rng.choice(SEG) for _ in range(rng.randrange(lo, hi))) + rng.choice(("", "", "1", "_x"))


LONG_NON_ASCII = [0]


def cls(rng):
    if rng.random() < 0.04:
        # Java identifiers may use any Unicode letter: long CJK / Cyrillic class names (in a UTF-8 pool their two length prefixes have different
        # widths once the UTF-16 length is below 128 and the byte length is not)
        LONG_NON_ASCII[0] += 1
        return rng.choice(CLS) + "".join(rng.choice("\u754c\u4e2d\u6587\u0416\u0434\u00e9") for _ in range(rng.choice((42, 50, 63, 64, 100, 126, 127, 130))))
    return rng.choice(CLS) + "".join(rng.choice(SEG + CLS + "0123456789_$") for _ in range(rng.randrange(0, 9)))


def complete(pkg, name):
    """Android: PackageParser.buildClassName"""
    if name.startswith("."):
        return pkg + name
    if "." not in name:
        return pkg + "." + name
    return name


class Model:
    pass


def comp_name(rng, pkg, kinds):
    k = rng.choice(("full", "leading-dot", "dotless", "sub", "foreign"))
    kinds.add(k)
    if k == "full":
        return pkg + "." + cls(rng)
    if k == "leading-dot":
        return "." + cls(rng)
    if k == "dotless":
        return cls(rng)
    if k == "sub":
        return "." + seg(rng) + "." + cls(rng)
    return "org." + seg(rng) + "." + cls(rng)


def gen_model(rng):
    m = Model()
    sp = m.special = rng.choice(SPECIALS)
    m.utf8 = rng.random() < 0.5
    m.package = ".".join(seg(rng) for _ in range(rng.choice((2, 2, 3, 4))))
    m.kinds = set()
    m.version_code = rng.choice((None, 0, 1, rng.randrange(1, 1 << 31), 2147483647))
    m.version_name = rng.choice((None, "1.0", "2.3.4-beta", seg(rng), "1", "v1.0 (build 5)"))
    # sdk
    m.sdk = {}
    m.has_uses_sdk = rng.random() < 0.85
    for k in ("minSdkVersion", "targetSdkVersion", "maxSdkVersion"):
        m.sdk[k] = rng.choice((None, rng.randrange(1, 36))) if m.has_uses_sdk else None
    if sp == "codename-sdk" and m.has_uses_sdk:
        m.sdk[rng.choice(("minSdkVersion", "targetSdkVersion"))] = rng.choice(("Q", "S", "Tiramisu", "VanillaIceCream"))
    # permissions
    m.perms = []
    for _ in range(rng.choice((0, 1, 2, 4, 8))):
        name = rng.choice(AOSP_PERMS) if rng.random() < 0.6 else m.package + ".permission." + seg(rng).upper()
        if sp == "dotless-permission" and rng.random() < 0.6:
            name = rng.choice((seg(rng).upper(), "MY_PERMISSION", "." + seg(rng).upper()))
        mx = rng.choice((None, None, rng.randrange(1, 36)))
        if any(p[0] == name for p in m.perms) and sp != "duplicate-permissions":
            continue
        m.perms.append((name, mx))
    if sp == "duplicate-permissions" and m.perms:
        for _ in range(rng.randrange(1, 3)):
            p = rng.choice(m.perms)
            m.perms.insert(rng.randrange(len(m.perms) + 1), (p[0], rng.choice((p[1], None, 18))))
    m.declared_perms = [m.package + ".permission." + seg(rng).upper() for _ in range(rng.choice((0, 0, 1, 2)))]
    m.declared_perms = list(dict.fromkeys(m.declared_perms))
    # features / libraries
    m.features = []
    for _ in range(rng.choice((0, 1, 2, 4))):
        r = rng.random()
        if r < 0.2:
            m.features.append((None, rng.choice((None, True, False)), rng.choice((0x00020000, 0x00030001))))  # glEsVersion only
        else:
            name = rng.choice(FEATURES) if rng.random() < 0.7 else "com." + seg(rng) + ".feature." + seg(rng)
            if sp == "dotless-feature" and rng.random() < 0.6:
                name = rng.choice((seg(rng), "camera", "." + seg(rng)))
            m.features.append((name, rng.choice((None, True, False)), None))
    m.libraries = []
    for _ in range(rng.choice((0, 0, 1, 2))):
        name = rng.choice(LIBS) if rng.random() < 0.7 else "com." + seg(rng) + "." + seg(rng)
        if sp == "dotless-library" and rng.random() < 0.7:
            name = rng.choice((seg(rng), "maps", "." + seg(rng)))
        m.libraries.append((name, rng.choice((None, True, False))))
    # components
    m.app_name = rng.choice((None, comp_name(rng, m.package, set())))
    m.components = {}
    used = set()
    nlaunch = 0
    for tag, maxn in (("activity", 6), ("service", 3), ("receiver", 3), ("provider", 2)):
        lst = []
        for _ in range(rng.randrange(0, maxn + 1)):
            name = comp_name(rng, m.package, m.kinds)
            if complete(m.package, name) in used and sp != "duplicate-components":
                continue
            again = complete(m.package, name) in used     # a second declaration of a name (duplicate-components): it carries no MAIN / LAUNCHER of its own, so
            used.add(complete(m.package, name))           # that 'MAIN and LAUNCHER not both on one component unless in one filter' also holds per NAME
            enabled = rng.choice((None, None, True))
            filters = []
            role = "none"
            if tag == "activity":
                lim = 3 if sp == "many-launchers" else 1
                role = rng.choice(("launcher", "main-only", "launcher-only", "none", "none")) if nlaunch < lim else rng.choice(("main-only", "launcher-only", "none"))
                if sp == "many-launchers" and nlaunch < lim and rng.random() < 0.7:
                    role = "launcher"
                if again:
                    role = "none"
                if role == "launcher":
                    nlaunch += 1
                    if sp == "disabled-launcher" and rng.random() < 0.7:
                        enabled = False
            elif sp != "disabled-launcher" and rng.random() < 0.15:
                enabled = False
            filters = gen_filters(rng, role)
            lst.append({"name": name, "enabled": enabled, "filters": filters, "role": role})
        if sp == "duplicate-components" and lst and rng.random() < 0.7:
            lst.append(dict(rng.choice(lst), role="none", filters=[]))
        m.components[tag] = lst
    m.aliases = []
    acts = m.components["activity"]
    for _ in range(rng.choice((0, 0, 1, 2)) if acts else 0):
        name = comp_name(rng, m.package, m.kinds)
        if complete(m.package, name) in used:
            continue
        used.add(complete(m.package, name))
        lim = 3 if sp == "many-launchers" else 1
        role = rng.choice(("launcher", "none")) if nlaunch < lim else "none"
        if role == "launcher":
            nlaunch += 1
        enabled = None
        if role == "launcher" and sp == "disabled-launcher" and rng.random() < 0.5:
            enabled = False
        m.aliases.append({"name": name, "target": rng.choice(acts)["name"], "enabled": enabled, "filters": gen_filters(rng, role), "role": role})
    m.noise = rng.random() < 0.5
    return m


def gen_filters(rng, role):
    other_actions = ["android.intent.action.VIEW", "android.intent.action.SEND", "android.intent.action.BOOT_COMPLETED", "com.x.ACTION"]
    other_cats = ["android.intent.category.DEFAULT", "android.intent.category.BROWSABLE", "android.intent.category.HOME"]
    filters = []
    for _ in range(rng.choice((0, 0, 1, 2))):
        filters.append(([rng.choice(other_actions) for _ in range(rng.randrange(1, 3))], [rng.choice(other_cats) for _ in range(rng.randrange(0, 3))]))
    MAIN, LAUNCHER = "android.intent.action.MAIN", "android.intent.category.LAUNCHER"
    if role == "launcher":
        f = ([MAIN], [LAUNCHER])
        if rng.random() < 0.3:
            f = ([MAIN, rng.choice(other_actions)], [rng.choice(other_cats), LAUNCHER])
        filters.insert(rng.randrange(len(filters) + 1), f)
    elif role == "main-only":
        filters.insert(rng.randrange(len(filters) + 1), ([MAIN], [rng.choice(other_cats)] if rng.random() < 0.5 else []))
    elif role == "launcher-only":
        filters.insert(rng.randrange(len(filters) + 1), ([rng.choice(other_actions)], [LAUNCHER]))
    return filters


# ---------------------------------------------------------------------------------------------------------------------
# model -> AXML
# ---------------------------------------------------------------------------------------------------------------------
def to_doc(m, rng):
    sp = m.special
    ns = None if sp == "attrs-without-namespace" else A
    with_resmap = sp != "no-resmap"

    def at(name, value=None, dtype=W.TYPE_STRING, data=0):
        pool_name = "" if (sp == "stripped-attr-names" and with_resmap) else None
        return W.Attr(ns, name, dtype, data=data, value=value, resid=IDS[name], pool_name=pool_name)

    def num(name, v):
        if isinstance(v, str):
            return at(name, v)
        if sp == "numbers-as-strings":
            return at(name, str(v))
        if sp == "hex-version-code" and name == "versionCode":
            return at(name, None, W.TYPE_INT_HEX, v)
        return at(name, None, W.TYPE_INT_DEC, v)

    def boolean(name, v):
        return at(name, None, W.TYPE_INT_BOOLEAN, 0xFFFFFFFF if v else 0)

    def filt(filters):
        out = []
        for actions, cats in filters:
            kids = [W.Elem(None, "action", attrs=[at("name", a)]) for a in actions] + [W.Elem(None, "category", attrs=[at("name", c)]) for c in cats]
            if m.noise and rng.random() < 0.3:
                kids.append(W.Elem(None, "data", attrs=[W.Attr(ns, "scheme", W.TYPE_STRING, value="https", resid=0x01010027)]))
            if rng.random() < 0.4:
                rng.shuffle(kids)      # the order of <action>, <category>, <data> inside a filter carries no meaning (categories may come first)
            out.append(W.Elem(None, "intent-filter", children=kids))
        return out

    top = []
    rattrs = []
    if m.version_code is not None:
        rattrs.append(num("versionCode", m.version_code))
    if m.version_name is not None:
        rattrs.append(at("versionName", m.version_name))
    rattrs.append(W.Attr(None, "package", W.TYPE_STRING, value=m.package))
    if m.noise:
        rattrs.append(W.Attr(None, "platformBuildVersionCode", W.TYPE_INT_DEC, data=33, raw="33"))
    if m.has_uses_sdk:
        top.append(W.Elem(None, "uses-sdk", attrs=[num(k, v) for k, v in m.sdk.items() if v is not None]))
    for name, mx in m.perms:
        a = [at("name", name)]
        if mx is not None:
            a.append(num("maxSdkVersion", mx))
        top.append(W.Elem(None, "uses-permission", attrs=a))
    for name in m.declared_perms:
        top.append(W.Elem(None, "permission", attrs=[at("name", name), W.Attr(ns, "protectionLevel", W.TYPE_INT_HEX, data=2, resid=0x01010009)]))
    for name, req, gl in m.features:
        a = []
        if name is not None:
            a.append(at("name", name))
        if gl is not None:
            a.append(at("glEsVersion", None, W.TYPE_INT_HEX, gl))
        if req is not None:
            a.append(boolean("required", req))
        top.append(W.Elem(None, "uses-feature", attrs=a))
    if m.noise:
        top.append(W.Elem(None, "queries", children=[W.Elem(None, "package", attrs=[at("name", "com.other.app")]),
                                                     W.Elem(None, "provider", attrs=[at("authorities", "com.other.provider")]),
                                                     W.Elem(None, "intent", children=[W.Elem(None, "action", attrs=[at("name", "android.intent.action.SEND")])])]))
    app_kids = []
    for name, req in m.libraries:
        a = [at("name", name)]
        if req is not None:
            a.append(boolean("required", req))
        app_kids.append(W.Elem(None, "uses-library", attrs=a))
    comps = []
    for tag, lst in m.components.items():
        for c in lst:
            a = [at("name", c["name"])]
            if c["enabled"] is not None:
                a.append(boolean("enabled", c["enabled"]))
            if m.noise and rng.random() < 0.4:
                a.append(boolean("exported", rng.random() < 0.5))
            if m.noise and rng.random() < 0.3:
                a.append(at("permission", "android.permission.BIND_JOB_SERVICE"))
            if m.noise and rng.random() < 0.3:
                a.append(at("label", None, W.TYPE_REFERENCE, 0x7F0B0000 + rng.randrange(50)))
            if tag == "provider":
                a.append(at("authorities", m.package + ".provider"))
            kids = filt(c["filters"])
            if m.noise and rng.random() < 0.3:
                kids.append(W.Elem(None, "meta-data", attrs=[at("name", "android.app.lib_name"), at("value", "native")]))
            comps.append(W.Elem(None, tag, attrs=a, children=kids))
    for al in m.aliases:
        a = [at("name", al["name"]), at("targetActivity", al["target"])]
        if al["enabled"] is not None:
            a.append(boolean("enabled", al["enabled"]))
        comps.append(W.Elem(None, "activity-alias", attrs=a, children=filt(al["filters"])))
    rng.shuffle(comps)
    app_kids += comps
    aattrs = []
    if m.app_name:
        aattrs.append(at("name", m.app_name))
    if m.noise:
        aattrs.append(at("label", None, W.TYPE_REFERENCE, 0x7F0B0001))
        aattrs.append(at("icon", None, W.TYPE_REFERENCE, 0x7F020001))
    app = W.Elem(None, "application", attrs=aattrs, children=app_kids)
    k = rng.randrange(len(top) + 1)
    top.insert(k, app)
    prefix = "a" if sp == "other-android-prefix" else "android"
    root = W.Elem(None, "manifest", nsdecls=[(prefix, A)], attrs=rattrs, children=top)
    if sp == "twin-plain-attrs":
        # an un-namespaced attribute next to the android: one (Android ignores it; tools and protectors leave such twins behind)
        def twins(e):
            for a in list(e.attrs):
                if a.ns == A and a.name in ("name", "targetActivity", "versionCode", "versionName", "minSdkVersion", "targetSdkVersion", "maxSdkVersion") and rng.random() < 0.6:
                    decoy = W.Attr(None, a.name, W.TYPE_STRING, value=rng.choice(["Decoy", ".Decoy", "com.decoy.Twin", "android.permission.DECOY", "7"]))
                    e.attrs.insert(rng.randrange(len(e.attrs) + 1), decoy)
            for c in e.children:
                if isinstance(c, W.Elem):
                    twins(c)
        twins(root)
    return W.Doc(root, utf8=m.utf8, with_resmap=with_resmap, sorted_attrs=rng.random() < 0.5, attr_size=rng.choice((0x14,) * 12 + (0x18,)))


# ---------------------------------------------------------------------------------------------------------------------
# oracle
# ---------------------------------------------------------------------------------------------------------------------
def numeq(got, want):
    if got is None or want is None:
        return got is None and want is None
    if isinstance(want, str):
        return got == want
    try:
        return int(str(got), 0) == want
    except ValueError:
        return False


def prefixed_only(got, want, pkg):
    """True when got == want except that dot-less / leading-dot names carry the package prefix"""
    w2 = Counter(complete(pkg, n) for n in want.elements())
    return got != want and got == w2


def check_model(ctx, m, data, idx):
    from androguard.core.apk import APK
    sp = m.special or "base"
    wit = {"case": idx, "special": m.special, "package": m.package, "pool": "utf8" if m.utf8 else "utf16"}
    if len(data) < 3000:
        wit["manifest_axml_hex"] = data.hex()
    z = apkzip.pack({"AndroidManifest.xml": data, "classes.dex": b""})
    ctx.ev()
    ctx.count("APK")
    try:
        a = APK(z, raw=True)
    except Exception as e:
        ctx.violation("apk-raises-%s-%s" % (type(e).__name__, sp), "APK(bytes, raw=True) raises on a well-formed manifest", dict(wit, exc=exc_str(e)))
        return
    if not a.is_valid_APK():
        ctx.violation("apk-invalid-%s" % sp, "is_valid_APK() is False for a well-formed manifest", wit)
        return

    first = {}
    hrng = ctx.rng("c31-history", idx)
    # history prefix: the queries that are built on other queries, asked BEFORE the ones they are built on (answers must not depend on the order)
    prefix = [n for n in ("get_main_activity", "get_app_name", "get_main_activities", "get_permissions") if hrng.random() < 0.4]
    hrng.shuffle(prefix)
    wit["queries_asked_first"] = prefix
    for n in prefix:
        ctx.count("history_prefix_queries")
        try:
            getattr(a, n)()
        except Exception:
            pass

    def norm(x):
        if isinstance(x, (list, tuple, set, frozenset)):
            return sorted((norm(y) for y in x), key=repr)
        if isinstance(x, dict):
            return sorted(((k, norm(v)) for k, v in x.items()), key=repr)
        return x

    def q(name, fn):
        ctx.ev()
        ctx.count("queries")
        try:
            r = fn()
        except Exception as e:
            ctx.violation("%s-raises-%s-%s" % (name, type(e).__name__, sp), "%s raises" % name, dict(wit, exc=exc_str(e)))
            return KeyError
        if name not in first:
            first[name] = (fn, norm(r))
        return r

    def bad(mech, what, got, want, suffix=True):
        ctx.violation(mech + ("-" + sp if suffix else ""), what, dict(wit, got=got, want=want))

    pkg = m.package
    g = q("get_package", a.get_package)
    if g is not KeyError and g != pkg:
        bad("package", "get_package differs from the manifest's package attribute", g, pkg)
    g = q("get_androidversion_code", a.get_androidversion_code)
    if g is not KeyError and not numeq(g, m.version_code):
        bad("version-code", "get_androidversion_code differs", g, m.version_code)
    g = q("get_androidversion_name", a.get_androidversion_name)
    if g is not KeyError and g != m.version_name:
        bad("version-name", "get_androidversion_name differs", g, m.version_name)
    # permissions
    g = q("get_permissions", a.get_permissions)
    if g is not KeyError:
        want = Counter(set(p[0] for p in m.perms))
        got = Counter(g)
        if got != want:
            if any(v > 1 for v in got.values()) and set(got) == set(want):
                bad("permissions-duplicates-kept", "get_permissions returns a permission more than once", sorted(g), sorted(want), False)
            elif prefixed_only(Counter(set(g)), want, pkg):
                bad("permission-name-without-dot-package-prefixed", "get_permissions prefixes the package to a permission name that has no dot / a leading dot (permission names are not class names)",
                    sorted(g), sorted(want), False)
            else:
                bad("permissions-differ", "get_permissions differs from the declared <uses-permission> names", sorted(g), sorted(want))
    g = q("uses_permissions", lambda: [tuple(x) for x in a.uses_permissions])
    if g is not KeyError:
        want = Counter((p[0], p[1]) for p in m.perms)
        if Counter(g) != want:
            bad("uses-permissions-maxsdk", "APK.uses_permissions (name, maxSdkVersion) pairs differ", sorted(g, key=repr), sorted(want.elements(), key=repr))
    g1 = q("get_requested_aosp_permissions", a.get_requested_aosp_permissions)
    g2 = q("get_requested_third_party_permissions", a.get_requested_third_party_permissions)
    gp = q("get_permissions", a.get_permissions)
    if KeyError not in (g1, g2, gp) and Counter(g1) + Counter(g2) != Counter(gp):
        bad("permissions-aosp-thirdparty-partition", "aosp + third-party permissions are not a partition of get_permissions", [g1, g2], gp)
    g = q("get_declared_permissions", a.get_declared_permissions)
    if g is not KeyError and Counter(g) != Counter(m.declared_perms):
        bad("declared-permissions-differ", "get_declared_permissions differs from the <permission> elements", sorted(g), sorted(m.declared_perms))
    # components
    for tag, fn in (("activity", a.get_activities), ("service", a.get_services), ("receiver", a.get_receivers), ("provider", a.get_providers)):
        g = q("get_%s" % tag, fn)
        if g is KeyError:
            continue
        want = Counter(complete(pkg, c["name"]) for c in m.components[tag])
        if Counter(g) != want:
            raw = Counter(c["name"] for c in m.components[tag])
            mech = "component-name-not-completed" if Counter(g) == raw else "components-differ-%s" % tag
            bad(mech, "get_%ss differs from the declared components (completed by Android's rule)" % tag, sorted(g), sorted(want.elements()))
    g = q("get_activity_aliases", a.get_activity_aliases)
    if g is not KeyError:
        want = Counter((complete(pkg, al["name"]), complete(pkg, al["target"])) for al in m.aliases)
        got = Counter((d.get("name"), d.get("targetActivity")) for d in g)
        if got != want:
            bad("activity-aliases-differ", "get_activity_aliases differs", sorted(got.elements(), key=repr), sorted(want.elements(), key=repr))
    # main activity
    launch_all = [c for c in m.components["activity"] + m.aliases if c["role"] == "launcher"]
    launch = [c for c in launch_all if c["enabled"] is not False]
    want_main = set(complete(pkg, c["name"]) for c in launch)
    dis = len(launch) != len(launch_all)
    g = q("get_main_activities", a.get_main_activities)
    main_set_ok = True
    if g is not KeyError:
        got = set(complete(pkg, x) for x in g)
        if got != want_main:
            main_set_ok = False
            bad("main-activities-disabled-component" if (dis and got == set(complete(pkg, c["name"]) for c in launch_all)) else "main-activities-differ",
                "get_main_activities differs from the components with a MAIN+LAUNCHER filter", sorted(got), sorted(want_main))
    g = q("get_main_activity", a.get_main_activity)
    if g is not KeyError and main_set_ok:  # get_main_activity is derived from get_main_activities: one root cause, one report
        ok = (g is None) if not want_main else (g in want_main)
        if not ok:
            bad("main-activity-disabled-component" if (dis and g in set(complete(pkg, c["name"]) for c in launch_all)) else "main-activity-differs",
                "get_main_activity is not a declared MAIN+LAUNCHER component (completed name)", g, sorted(want_main))
    # sdk
    for k, fn in (("minSdkVersion", a.get_min_sdk_version), ("targetSdkVersion", a.get_target_sdk_version), ("maxSdkVersion", a.get_max_sdk_version)):
        g = q("get_" + k, fn)
        if g is not KeyError and not numeq(g, m.sdk[k]):
            bad("sdk-%s" % k, "get_%s differs from <uses-sdk>" % k, g, m.sdk[k])
    t, mn = m.sdk["targetSdkVersion"], m.sdk["minSdkVersion"]
    # documented: the target if it is declared, else the minimum, else 1; a declared value that is not a number (platform codename of a
    # preview build) gives the default 1 - it does NOT fall through to the next candidate
    v = t if t is not None else mn
    try:
        want = 1 if v is None else int(str(v), 10)
    except ValueError:
        want = 1
    g = q("get_effective_target_sdk_version", a.get_effective_target_sdk_version)
    if g is not KeyError and g != want:
        bad("effective-target-sdk", "get_effective_target_sdk_version differs (target, else min, else 1; 1 for a non-numeric value)", g, want)
    # features / libraries
    g = q("get_features", a.get_features)
    if g is not KeyError:
        want = Counter(f[0] for f in m.features if f[0] is not None)
        if Counter(g) != want:
            if prefixed_only(Counter(g), want, pkg):
                bad("feature-name-without-dot-package-prefixed", "get_features prefixes the package to a feature name that has no dot / a leading dot", sorted(g), sorted(want.elements()), False)
            else:
                bad("features-differ", "get_features differs from the <uses-feature> names", sorted(g), sorted(want.elements()))
    g = q("get_libraries", a.get_libraries)
    if g is not KeyError:
        want = Counter(l[0] for l in m.libraries)
        if Counter(g) != want:
            if prefixed_only(Counter(g), want, pkg):
                bad("library-name-without-dot-package-prefixed", "get_libraries prefixes the package to a library name that has no dot / a leading dot", sorted(g), sorted(want.elements()), False)
            else:
                bad("libraries-differ", "get_libraries differs from the <uses-library> names", sorted(g), sorted(want.elements()))
    # every query once more, in another order, on the same object: the answer must be the one given the first time
    names = sorted(first)
    hrng.shuffle(names)
    for n in names:
        fn, r1 = first[n]
        ctx.count("queries_repeated")
        try:
            r2 = norm(fn())
        except Exception as e:
            ctx.violation("%s-raises-when-asked-again" % n, "a query that answered the first time raises when asked again on the same APK object", dict(wit, exc=exc_str(e)))
            continue
        if r2 != r1:
            ctx.violation("%s-answer-changes-when-asked-again" % n, "the same query on the same APK object gives another answer the second time", dict(wit, first=r1, second=r2))
    ctx.count("cases_" + sp)
    ctx.sig(m.special, m.utf8, tuple(len(m.components[t]) for t in ("activity", "service", "receiver", "provider")), len(m.aliases), tuple(sorted(m.kinds)),
            min(len(m.perms), 3), tuple(v is None for v in m.sdk.values()), len(want_main), len(m.features) > 0, len(m.libraries) > 0)


def one_case(ctx, i):
    rng = ctx.rng("c31", i)
    m = gen_model(rng)
    doc = to_doc(m, rng)
    data = W.build(doc)
    W.selfcheck(doc, data)
    check_model(ctx, m, data, i)
    return m, data


def shard(ctx, arg):
    lo, hi = arg
    for i in range(lo, hi):
        m, data = one_case(ctx, i)
        if LONG_NON_ASCII[0]:
            ctx.count("component_names_of_42_to_130_non_ascii_letters", LONG_NON_ASCII[0])
            LONG_NON_ASCII[0] = 0
        if i % 499 == 0:
            ctx.sample({"case": i, "special": m.special, "package": m.package, "permissions": m.perms, "sdk": m.sdk,
                        "components": {k: [c["name"] for c in v] for k, v in m.components.items()}, "aliases": [(x["name"], x["target"]) for x in m.aliases],
                        "features": m.features, "libraries": m.libraries, "manifest_axml_hex": data.hex()[:1500]})


def replay(ctx, path):
    """re-run the cases named in a replay file (cases are pure functions of (seed, case index))"""
    import json
    with open(path) as f:
        j = json.load(f)
    ctx.seed = j.get("seed", ctx.seed)
    ctx.rule = "replay of %s" % path
    for w in j["witnesses"]:
        if isinstance(w.get("case"), int):
            one_case(ctx, w["case"])
            ctx.sig("replay", w["case"])
            ctx.sample({"replayed_case": w["case"]})
    ctx.min_distinct = 1


def run(ctx):
    ctx.rule = ("random manifest models (package, versionCode/Name typed or string, uses-sdk present/absent/partial/codename, 0..8 uses-permission with maxSdkVersion and "
                "duplicates, declared permissions, uses-feature with/without name, uses-library, 0..6 activities / services / receivers / providers with full, "
                "leading-dot, dot-less, sub-package and foreign names, activity-alias, MAIN+LAUNCHER on 0..3 components, enabled=false, noise elements (queries, "
                "meta-data, data, permission attributes)) -> vf.model.axmlw -> zip -> APK(bytes, raw=True); every query compared with the model. At most one special "
                "feature per case. distinct non-trivial = distinct (special, pool, component counts, name kinds, #permissions, sdk presence, #main, features, libraries)")
    ctx.assumptions = ["Android's class-name completion applies to component names only; permission/feature/library names are plain strings",
                       "multiset comparison for component/feature/library lists, set comparison (and no duplicates) for get_permissions",
                       "MAIN and LAUNCHER are generated in the same intent-filter or not both on one component",
                       "numbers compared by value; codename SDK versions: only the attribute string is compared",
                       "trusted base: vf.model.axmlw (self-checked), python zipfile"]
    n = 1600 if ctx.quick else 320000
    per = n // 16
    ctx.run_shards(MOD, "shard", [[k * per, (k + 1) * per] for k in range(16)], timeout=1500)
    ctx.require_counter("APK", 500)
    ctx.require_counter("queries", 5000)
    ctx.require_counter("cases_base", 100)
    ctx.require_counter("component_names_of_42_to_130_non_ascii_letters", 20)
    ctx.min_distinct = 50
