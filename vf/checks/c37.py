"""C37 decompile output stays inside the output directory.

Workload: DEX files produced by the independent writer (vf.model.dexw) whose class names / method names contain '..', '.',
empty segments, a leading '/', many '../', 255/256/300-character segments, backslashes, and benign controls.  Each file goes through
what the CLI `decompile` command does - Session(db_url=...), Session.add(name, bytes), export_apps_to_format(name, s, out) -
in a child process whose cwd is an empty sandbox S; out = S/a/b/out (S/a/b pre-created), database in S/db
(P/db for the deeper sandboxes of very deep names: SQLite's 512-byte path limit).

Monitors (observing the REAL export_apps_to_format):
  1. vf.monitor.fsaudit audit hook, switched on only for the duration of the export call: every open-for-writing / mkdir / rename /
     link / symlink / truncate / shutil.* destination, realpath'ed at event time, must be realpath(out) or below it.  Audit events
     fire before the operation, also when it then fails (open() through a missing directory -> ENOENT): an event counts only if the
     entry exists / has changed when the next audit event (or the end of the window) arrives ("effective"); failed attempts are
     counted separately and are not violations (the property speaks of what the command creates).
  2. directory snapshot of the canary root P before/after the call: nothing new or modified outside out (S/db excluded: SQLite's
     own -wal/-shm files, created by Session, independent of the input).

  3. containment hook (RootGuard, below): an operation of the kinds above whose destination resolves outside the canary root P is
     refused before it happens (PermissionError into the export) and judged as a creation outside out if its parent directory exists.
     Only a name piece that turned into an absolute path gets there (no nesting of the sandbox can contain that).

Domain decisions
  * An exception out of the export (ENAMETOOLONG, ENOENT for a path through a missing directory, IndexError for an empty class
    name ...) is an acceptable outcome; only what was created before it counts.
  * `out` itself being created is allowed (it is the requested directory); its parent is pre-created because os.makedirs(out) would
    legitimately create missing ancestors.
  * The sandbox is nested 7 levels below a fresh canary directory P (P/n1/../n6/S), and generated names contain at most 8 '..'
    segments in total, so that even a successful escape stays inside P (out is 10 levels below P) and is deleted with it.
    Very deep class names (below) may carry more '..' segments: their sandbox gets one extra one-character level per surplus '..'
    (P/n1/../n6/n/n/../n/S), so that the same bound holds whichever of the '..' a defective cleaning step lets through.
  * Very deep class names (deep-class-name: more than 100 '/' separators; 120..400 generated, most of them above 255, plus the
    neighbourhood of 255): an early part mixing '', '.', '..' and a few ordinary segments in random order, then a tail (..)^t/<ordinary>
    where t is, for most cases, larger than the number k of ordinary segments before it - a cleaning step that treats "the first N
    levels" and "the rest" differently (depth limit, maxsplit, chunked join) and lets any piece of the tail through leaves the output
    directory.  Ordinary segments all start with "vfc37-" (should anything ever land outside P it is recognisable), names stay
    below 1800 characters (DEX strings have a ULEB128 length, no limit of their own) and every absolute path below ~3000 < PATH_MAX
    even if nothing at all were filtered.  A piece of such a name that begins at an empty segment is an absolute path: see monitor 3.
    On a correct tree these exports complete
    (the ordinary segments become directories inside out); completed deep exports with files inside out are counted and required.
  * A method-name escape needs the directory named by the first path component of "<Class> <method>" to exist; the generator adds,
    for half of those cases, a helper class whose (legal on Linux) name creates exactly that directory inside out.  Both classes are
    "class and method names in the DEX", which is what the property quantifies over.
  * Benign controls must complete without exception and create files inside out (otherwise the run is inconclusive: the monitor
    would be looking at a dead export).
Mechanisms: escape-<kind> where kind is the (single) hostile feature of the case:
  dotdot-class-name, absolute-class-name, empty-segment-class-name, dot-segment-class-name, long-segment-class-name,
  backslash-class-name, unterminated-class-name, nul-in-class-name, inner-semicolon-class-name, method-name, benign-names,
  deep-class-name.
"""
import contextlib
import io
import json
import os
import shutil
import sys
import tempfile

from vf.harness import exc_str

MOD = "vf.checks.c37"
MAX_DOTDOT = 8
DEEP_SEPS = 100  # more '/' separators than this: deep-class-name
MAX_DEEP_DOTDOT = 340  # per deep name; the sandbox of such a case is nested (count - MAX_DOTDOT) levels deeper
NEST = ["n1", "n2", "n3", "n4", "n5", "n6"]
LONG300 = "L" * 300
SEG255 = "x" * 255
SEG256 = "y" * 256


# ---- case generation --------------------------------------------------------------------------------------------------------
def seg_class(s):
    if s == "..":
        return "DD"
    if s == ".":
        return "D"
    if s == "":
        return "E"
    if len(s) >= 200:
        return "LONG"
    if "\\" in s:
        return "BS" + ("DD" if ".." in s else "")
    if " " in s:
        return "SP"
    if s.strip(".") == "":
        return "DOTS"
    return "p"


def shape(name):
    core = name[1:-1] if name.endswith(";") else "?" + name
    return tuple(seg_class(s) for s in core.split("/"))


def class_kind(name):
    """single-feature classifier of a class descriptor (priority order = what can move the path furthest)"""
    core = name[1:-1] if name.endswith(";") else name
    segs = core.split("/")
    if len(segs) - 1 > DEEP_SEPS:
        return "deep-class-name"
    if ".." in segs:
        return "dotdot-class-name"
    if "\x00" in name:
        return "nul-in-class-name"
    if ";" in core:
        return "inner-semicolon-class-name"
    if not name.endswith(";"):
        return "unterminated-class-name"
    if segs[0] == "" and len(segs) > 1:
        return "absolute-class-name"
    if "" in segs:
        return "empty-segment-class-name"
    if "." in segs:
        return "dot-segment-class-name"
    if any("\\" in s for s in segs):
        return "backslash-class-name"
    if any(len(s) >= 200 for s in segs):
        return "long-segment-class-name"
    return "benign-names"


def dd_count(*names):
    return sum(n.replace("\\", "/").split("/").count("..") for n in names)


FIXED_CLASS_NAMES = [
    "L../x;", "L../../x;", "L../../../x;", "La/../../b;", "La/../../../b;", "L..;", "L../..;", "La/b/../../../c;",
    "L../../../../../../../../x;", "L../out/../../x;", "L../a/b/c/d;", "L./../x;", "L../;",
    "../../x", "../x",
    "L/abs/x;", "L/x;", "L/tmp/vf_c37_abs/x;", "L//x;", "L///;", "La//b;", "La/;", "L;", "L/;",
    "L./x;", "La/./b;", "L.;", "L./.;", "L.../x;", "L..a/x;", "La../x;",
    "L" + LONG300 + ";", "La/" + LONG300 + "/b;", "L" + SEG255 + ";", "L" + SEG256 + "/x;", "L" + "/".join(["d" * 200] * 25) + ";",
    "L..\\..\\x;", "La\\b;", "L\\abs\\x;", "LC:\\x;", "L..\\;", "La/..\\../b;",
    # characters a cleaning step may drop AFTER the '..' filter ran (NUL is C0 80 in the DEX), a ';' inside the name (a matcher that stops at
    # the first complete descriptor), look-alike dots
    "L.\x00./.\x00./esc/Evil;", "L..\x00/sibling/Evil2;", "L\x00../x;", "La/.\x00./.\x00./.\x00./b;", "L\x00/x;", "La\x00b/c;",
    "La;/../../esc/Evil2;", "Lcom/example/Plain;/../../../../sibling/Evil3;", "La;b/../../x;", "L;/../x;", "La;/x;",
    "L\uff0e\uff0e/x;", "L\u2024\u2024/x;", "L..\t/x;", "L..\n/x;", "L%2e%2e/x;",
    # siblings whose name merely BEGINS like the output directory ("out") or one of its parents ("b", "a"): inside by string prefix, outside by path
    "L../outside/Evil;", "L../out.bak/q/Evil;", "Lp/../../out2/Evil;", "L../out-1/x;", "L../outer;", "L../out;", "L../out/x;", "L../../b2/x;",
    "L../../b.old/out/x;", "L../../../a1/b/out/x;", "La/../../outx;",
]
BENIGN_CLASS_NAMES = ["La/b/C;", "LTop;", "Lcom/example/deep/er/X$1;", "Lok/A;", "Lp/CON;", "Lp/a b;", "Lé/中;"]
FIXED_METHOD_NAMES = [
    "x/../../../../zz", "/../../../../zz", "x/../../../../../../zz", "../zz", "../../zz", "..", ".", "/", "a/b", "/abs/zz", "a/../b",
    "x/y/../../../../../zz", "..\\..\\zz", "a\\b", LONG300, "x/" + LONG300, "<init>/../x", "a b", "...", "x/..", "x/../..",
]


def method_case(mname, helper):
    """benign class Lok/A; with hostile method name; optional helper class creating the directory the escape walks through"""
    classes = []
    comps = ("A " + mname).split("/")
    if helper:
        prefix = []
        for c in comps[:-1]:
            if c == "..":
                break
            prefix.append(c)
        if prefix and all(c not in ("", ".") and len(c) < 200 for c in prefix):
            classes.append({"name": "Lok/A/" + "/".join(prefix) + ";", "methods": ["h"]})
        else:
            helper = False
    classes.append({"name": "Lok/A;", "methods": [mname]})
    return {"kind": "method-name", "classes": classes, "helper": helper, "hostile": mname}


DEEP_PREFIX = "vfc37-"  # every ordinary segment of a deep name starts like this (see the domain decisions)
DEEP_ORDINARY = [DEEP_PREFIX + x for x in ("p", "q", "a", "x1", "\u00e9", "a b", "x.y")]
DEEP_LEAVES = [[DEEP_PREFIX + x for x in l] for l in (["esc", "Evil"], ["Evil"], ["out", "x"], ["esc2", "q", "Evil"], ["outside", "Evil"])]


def deep_case(early, t, leaf, tail_noise=()):
    """early: list of segments; tail: t '..' segments (tail_noise: (index, '' or '.') inserted after that '..'), then the leaf"""
    tail = []
    for i in range(t):
        tail.append("..")
        tail.extend(seg for pos, seg in tail_noise if pos == i)
    segs = list(early) + tail + list(leaf)
    assert all(s_ in ("", ".", "..") or s_.startswith(DEEP_PREFIX) for s_ in segs)
    name = "L" + "/".join(segs) + ";"
    k = sum(1 for s_ in early if s_ not in ("", ".", ".."))
    return {"kind": class_kind(name), "classes": [{"name": name, "methods": ["m"]}], "hostile": name,
            "deep": {"separators": len(segs) - 1, "ordinary_before_tail": k, "dotdot_in_tail": t,
                     "dropped_in_early_part": len(early) - k, "early_classes": sorted(set(seg_class(s_) for s_ in early))}}


def gen_deep_cases(ctx):
    """very deep class names; own random stream, so that the other cases do not depend on this family"""
    rng = ctx.rng("c37-deep")
    cases = []
    # structured: n droppable segments of one sort (or ordinary ones), then ../../<leaf>; n around 255 and well above
    for n in (253, 254, 255, 256, 257, rng.randint(258, 330)):
        fill = rng.choice(["", ".", ".."]) if n != 253 else "."
        cases.append(deep_case([fill] * n, 2, rng.choice(DEEP_LEAVES)))
    cases.append(deep_case([DEEP_ORDINARY[0]] * rng.randint(256, 300), 0, DEEP_LEAVES[1]))
    cases.append(deep_case([DEEP_ORDINARY[0]] * rng.randint(256, 300) + [""] * 2, 6, DEEP_LEAVES[0]))
    nrand = 26 if ctx.quick else 400
    seen = set(c["hostile"] for c in cases)
    tries = 0
    while len(cases) < 8 + nrand and tries < nrand * 20:
        tries += 1
        n_early = rng.randint(256, 390) if rng.random() < 0.75 else rng.randint(120, 255)
        k = min(rng.choice([0, 0, 1, 1, 2, 3, 5, 8, 40, 100]), n_early)
        u = min(rng.choice([0, 0, 1, 3, 10, 40, 120]), n_early - k)
        p_empty = rng.choice([0.0, 0.2, 0.6, 1.0])
        early = [rng.choice(DEEP_ORDINARY) for _ in range(k)] + [".."] * u
        early += ["" if rng.random() < p_empty else "." for _ in range(n_early - k - u)]
        rng.shuffle(early)
        t = rng.choice([k + 1, k + 1, k + 1, k + 2, k + 5, max(0, k - 1), 0, 1, 2])
        t = min(t, MAX_DEEP_DOTDOT - u)
        noise = [(rng.randrange(t), rng.choice(["", "."])) for _ in range(rng.choice([0, 0, 1, 2]))] if t else []
        c = deep_case(early, t, rng.choice(DEEP_LEAVES), noise)
        if c["hostile"] in seen or len(c["hostile"]) > 1800 or dd_count(c["hostile"]) > MAX_DEEP_DOTDOT:
            continue
        seen.add(c["hostile"])
        if rng.random() < 0.25:
            c["classes"].insert(0, {"name": "Lsafe/Ok;", "methods": ["m"]})
        c["form"] = "raw" if rng.random() < 0.2 else None
        cases.append(c)
    return cases


def gen_cases(ctx):
    rng = ctx.rng("c37-cases")
    cases = []
    for n in FIXED_CLASS_NAMES:
        cases.append({"kind": class_kind(n), "classes": [{"name": n, "methods": ["m"]}], "hostile": n})
    for n in FIXED_CLASS_NAMES:
        if len(n) < 80:
            # the optional graph output (-f) builds its own file names from the same class and method names
            cases.append({"kind": class_kind(n), "classes": [{"name": n, "methods": ["m"]}], "hostile": n, "form": "raw"})
    for n in BENIGN_CLASS_NAMES:
        cases.append({"kind": "benign-names", "classes": [{"name": n, "methods": ["m", "<init>"]}], "hostile": None})
    cases.append({"kind": "benign-names", "classes": [{"name": n, "methods": ["m"]} for n in BENIGN_CLASS_NAMES[:4]], "hostile": None})
    for mn in FIXED_METHOD_NAMES:
        for helper in (False, True):
            c = method_case(mn, helper)
            if helper and not c["helper"]:
                continue
            cases.append(c)
    nrand = 400 if ctx.quick else 6000
    pools = {
        "dotdot": ["..", "..", "a", "b", "x", "out", "outside", "out.bak", "b2"],
        "dot": [".", "a", "b"],
        "empty": ["", "a", "b"],
        "long": ["a", LONG300, SEG255, SEG256],
        "backslash": ["..\\..\\x", "a\\b", "\\abs", "C:\\x", "..\\", "\\..", "a"],
        "mixed": ["..", ".", "", "a", "b", "...", "..a", " ", "a b", "..\\..", SEG255, LONG300, "CON", "é"],
        "special": ["..", ".\x00.", "..\x00", "\x00..", "a;", ";", "..;", "a", "esc", "b\x00"],
    }
    mpieces = ["..", ".", "", "x", "y", "zz", "a b", "..\\..", "...", "<init>", SEG255]
    seen = set(json.dumps(c["classes"]) + str(c.get("form")) for c in cases)
    tries = 0
    target = len(cases) + nrand
    while len(cases) < target and tries < nrand * 20:
        tries += 1
        r = rng.random()
        if r < 0.75:
            pool = pools[rng.choice(sorted(pools))]
            segs = [rng.choice(pool) for _ in range(rng.choice([1, 2, 2, 3, 3, 4, 5, 7, 9]))]
            name = "L" + "/".join(segs) + (";" if rng.random() < 0.93 else "")
            if len(name) < 2 or dd_count(name) > MAX_DOTDOT:
                continue
            mname = "m" if rng.random() < 0.8 else "/".join(rng.choice(mpieces) for _ in range(rng.choice([1, 2, 3])))
            if mname == "" or dd_count(name, mname) > MAX_DOTDOT:
                continue
            c = {"kind": class_kind(name), "classes": [{"name": name, "methods": [mname]}], "hostile": name}
            if c["kind"] == "benign-names" and mname != "m":
                c["kind"] = "method-name"
                c["hostile"] = mname
            elif c["kind"] == "benign-names":
                c["hostile"] = None
            if rng.random() < 0.25:  # a benign class rides along (first, so that it is exported before any exception)
                c["classes"].insert(0, {"name": "Lsafe/Ok;", "methods": ["m"]})
        elif r < 0.9:
            mname = "/".join(rng.choice(mpieces) for _ in range(rng.choice([1, 2, 3, 4, 6])))
            if mname == "" or dd_count(mname) > MAX_DOTDOT - 1:
                continue
            c = method_case(mname, rng.random() < 0.6)
        else:
            # structured family: <existing directories>/(..)^k/<file>; with the helper class the directories exist, so k decides
            prefix = [rng.choice(["x", "y", "a b", "q"]) for _ in range(rng.choice([1, 1, 2, 3]))]
            k = rng.randint(1, MAX_DOTDOT - 1)
            mname = "/".join(prefix + [".."] * k + [rng.choice(["zz", "a b", "é"])])
            c = method_case(mname, rng.random() < 0.8)
        c["form"] = "raw" if rng.random() < 0.2 else None
        key = json.dumps(c["classes"]) + str(c.get("form"))
        if key in seen:
            continue
        seen.add(key)
        cases.append(c)
    cases.extend(gen_deep_cases(ctx))
    for i, c in enumerate(cases):
        c.setdefault("form", None)
        c.setdefault("helper", False)
        c["idx"] = i
    return cases


# ---- child side -------------------------------------------------------------------------------------------------------------
class RootGuard:
    """Containment (a second audit hook, this check's own): while armed with a canary root P, an open-for-writing / mkdir / rename /
    link / symlink / truncate / shutil.* whose destination resolves (realpath at event time) outside P is refused with PermissionError
    before it happens, and remembered.  Nothing the export does in a correct tree goes there (the nested sandbox keeps every relative
    escape inside P); what remains is a name piece that became an ABSOLUTE path (os.path.join drops everything before a component
    starting with '/'), which no nesting can contain.  A refused operation whose parent directory exists would have created the
    entry: it is judged like a creation outside out.  /dev/* is let through."""
    _inst = None

    def __init__(self):
        self.root = None
        self.blocked = []
        self._busy = False

    @classmethod
    def get(cls):
        if cls._inst is None:
            cls._inst = cls()
            sys.addaudithook(cls._inst._hook)
        return cls._inst

    def arm(self, root):
        self.blocked = []
        self.root = os.path.realpath(root)

    def disarm(self):
        self.root = None
        return self.blocked

    def _hook(self, event, args):
        if self.root is None or self._busy:
            return
        from vf.monitor import fsaudit
        path = None
        if event == "open":
            if len(args) >= 3 and fsaudit._is_write_open(args[1], args[2]):
                path = fsaudit._to_str(args[0])
        elif event in fsaudit._DST_ARG:
            i = fsaudit._DST_ARG[event]
            if len(args) > i:
                path = fsaudit._to_str(args[i])
        if path is None:
            return
        self._busy = True
        try:
            try:
                real = os.path.realpath(path)
            except Exception:
                real = os.path.abspath(path)
            if fsaudit.inside(real, self.root) or real.startswith("/dev/"):
                return
            self.blocked.append({"event": event, "path": path, "real": real, "existed": os.path.lexists(real),
                                 "parent_exists": os.path.isdir(os.path.dirname(real))})
        finally:
            self._busy = False
        raise PermissionError("vf c37 containment: %s outside the canary root refused: %r" % (event, real))


def build_dex(case):
    from vf.model import dexw as W
    m = W.DexModel()
    for cd in case["classes"]:
        c = m.add_class(cd["name"])
        for mn in cd["methods"]:
            if mn == "<init>":
                c.add_method(mn, "V", (), W.ACC_PUBLIC | W.ACC_CONSTRUCTOR, W.Code(1, 1, 0, [("return-void",)]))
            else:
                c.add_method(mn, "I", ("I", "Ljava/lang/String;"), W.ACC_PUBLIC | W.ACC_STATIC,
                             W.Code(3, 2, 0, [("const/4", 0, 1), ("return", 0)]))
    data = W.write_dex(m)
    return data, W.self_check(data)


def run_one(ctx, case, audit):
    from vf.monitor import fsaudit
    P = os.path.realpath(tempfile.mkdtemp(prefix="vf_c37_"))
    old_cwd = os.getcwd()
    try:
        # one extra level per '..' beyond MAX_DOTDOT (deep class names): out is always at least (number of '..' + 2) levels below P
        dd_total = dd_count(*[c["name"] for c in case["classes"]], *[m for c in case["classes"] for m in c["methods"]])
        extra_nest = max(0, dd_total - MAX_DOTDOT)
        S = os.path.join(P, *NEST, *(["n"] * extra_nest), "S")
        os.makedirs(os.path.join(S, "a", "b"))
        # SQLite refuses database paths longer than 512 bytes: with a deeper sandbox the database lies directly below P (no generated name has a
        # segment "db", and P is at least two levels above anything the '..' of the case can reach)
        dbdir = os.path.join(S, "db") if not extra_nest else os.path.join(P, "db")
        os.makedirs(dbdir)
        os.makedirs(os.path.join(S, "in"))
        out = os.path.join(S, "a", "b", "out")
        data, probs = build_dex(case)
        if probs:
            ctx.count("writer_selfcheck_failed")
            ctx.inconclusive("DEX writer self-check failed for case %r: %s" % (case["classes"], probs))
            return
        fin = os.path.join(S, "in", "in.dex")
        with open(fin, "wb") as f:
            f.write(data)
        os.chdir(S)
        from androguard.cli.main import export_apps_to_format
        from androguard.session import Session
        try:
            s = Session(db_url="sqlite:///%s" % os.path.join(dbdir, "s.db"))
            s.add(fin, data)
            seen_names = [str(c.get_name()) for _, vm, _ in s.get_objects_dex() for c in vm.get_classes()]
            seen_methods = [str(m.get_name()) for _, vm, _ in s.get_objects_dex() for m in vm.get_encoded_methods()]
        except Exception as e:
            # the parser refusing the file is outside this property (nothing exported)
            ctx.count("session_add_raised")
            ctx.extra.setdefault("session_add_raised", []).append({"classes": case["classes"], "exc": exc_str(e)})
            return
        want_names = [c["name"] for c in case["classes"]]
        if sorted(seen_names) != sorted(want_names) or sorted(seen_methods) != sorted(m for c in case["classes"] for m in c["methods"]):
            ctx.count("names_not_as_generated")
            ctx.inconclusive("androguard did not see the generated names: want %r got %r" % (want_names, seen_names))
            return
        ctx.count("hostile_names_reached_export" if case["kind"] != "benign-names" else "benign_cases")
        deep = case.get("deep")
        if case["kind"] == "deep-class-name":
            ctx.count("deep_class_name_exports")
            ctx.maxi("max_separators_in_class_name", max(n.count("/") for n in want_names))
            ctx.maxi("max_extra_sandbox_nesting", extra_nest)
            if deep and deep["separators"] > 255:
                ctx.count("deep_names_over_255_separators")
            if deep and deep["dotdot_in_tail"] > deep["ordinary_before_tail"]:
                ctx.count("deep_names_more_dotdot_in_tail_than_ordinary_segments_before")
                if deep["separators"] > 255 and deep["dropped_in_early_part"]:
                    ctx.count("deep_names_over_255_separators_dropped_early_segments_and_dotdot_tail")
        guard = RootGuard.get()
        guard.arm(P)  # from here on nothing is created outside the canary root (also not by the unjudged earlier export)
        if case["idx"] % 3 == 0:
            # history: the same process has already exported this session to ANOTHER directory (not judged); what the judged export creates
            # must lie inside its own output directory, not in the earlier one
            ctx.count("exports_preceded_by_an_export_to_another_directory")
            try:
                with contextlib.redirect_stdout(io.StringIO()):
                    export_apps_to_format(fin, s, os.path.join(S, "a", "b", "earlier-out"), None, None, None, case["form"])
            except Exception:
                pass
        out_real = os.path.realpath(out)
        db_rel = os.path.relpath(dbdir, P)
        out_rel = os.path.relpath(out_real, P)
        before = fsaudit.snapshot(P)
        raised = None
        buf = io.StringIO()
        ctx.ev()
        ctx.count("export_calls")
        guard.arm(P)
        audit.start()
        try:
            with contextlib.redirect_stdout(buf):
                export_apps_to_format(fin, s, out, None, None, None, case["form"])
        except Exception as e:
            raised = exc_str(e)
        finally:
            events = audit.stop()
            blocked = guard.disarm()
        after = fsaudit.snapshot(P)
        # containment: operations refused because they pointed outside the canary root; with an existing parent directory they would
        # have created the entry (we run as root: no permission would have stopped them)
        esc_blocked = [b for b in blocked if b["parent_exists"]]
        if blocked:
            ctx.count("operations_outside_canary_root_refused", len(blocked))
        ctx.count("audit_events_seen_in_window", audit.seen_total)
        ctx.count("audit_create_events", len(events))
        if raised:
            ctx.count("export_raised")
            ctx.extra.setdefault("exception_kinds", {})[raised.split(":")[0] + ":" + case["kind"]] = raised[:160]
        else:
            ctx.count("export_completed")
        # oracle 1: audit events
        # (audit events fire before the operation and also when it then fails; only effective ones created something)
        esc_audit = [e for e in events if e["effective"] and not fsaudit.inside(e["real"], out_real)]
        failed_outside = [e for e in events if not e["effective"] and not fsaudit.inside(e["real"], out_real)]
        if failed_outside:
            ctx.count("failed_attempts_outside_out_not_counted", len(failed_outside))
        # oracle 2: snapshot
        new = fsaudit.diff(before, after)
        esc_snap = [p for p in new if not (p == out_rel or p.startswith(out_rel + os.sep) or p == db_rel or p.startswith(db_rel + os.sep))]
        inside_new = [p for p in new if p.startswith(out_rel + os.sep)]
        ctx.count("files_created_inside_out", len(inside_new))
        ctx.maxi("max_created_per_export", len(new))
        if case["kind"] == "deep-class-name" and not raised and any(p.endswith(".java") for p in inside_new) \
                and any(p.endswith(".ag") for p in inside_new):
            # a deep export that ran to its end and produced its files (a comparison that says something)
            ctx.count("deep_exports_completed_with_files_inside_out")
        # the two monitors must agree on what was created inside P (cross-check of the monitors themselves)
        audit_created = set(os.path.relpath(e["real"], P) for e in events if e["effective"] and fsaudit.inside(e["real"], P))
        missed = [p for p in new if p not in audit_created and not (p == db_rel or p.startswith(db_rel + os.sep))]
        if missed:
            ctx.count("created_not_seen_by_audit_hook", len(missed))
        if case["kind"] == "benign-names":
            if raised:
                ctx.count("benign_export_raised")
                ctx.inconclusive("benign control raised: %s %r" % (raised, case["classes"]))
            java = [p for p in inside_new if p.endswith(".java")]
            ag = [p for p in inside_new if p.endswith(".ag")]
            if java and ag:
                ctx.count("benign_files_created", len(java) + len(ag))
            else:
                ctx.inconclusive("benign control created no .java/.ag inside out: %r" % case["classes"])
        if esc_audit or esc_snap or esc_blocked:
            ctx.violation("escape-" + case["kind"],
                          "export_apps_to_format created files/directories outside the requested output directory (%s)" % case["kind"],
                          {"classes": case["classes"], "form": case["form"], "helper_class_added": case["helper"], "deep_name": deep,
                           "out": "P/" + out_rel,
                           "audit_escapes": [{"event": e["event"], "path_as_given": e["path"].replace(P, "P"), "realpath": e["real"].replace(P, "P")} for e in esc_audit[:6]],
                           "snapshot_new_outside_out": esc_snap[:8], "export_exception": raised,
                           "refused_outside_canary_root": [{"event": b["event"], "path_as_given": b["path"].replace(P, "P"), "realpath": b["real"]}
                                                           for b in esc_blocked[:4]],
                           "dex_hex": data.hex() if len(data) < 1900 else None})
            ctx.count("escapes")
        names = [c["name"] for c in case["classes"]]
        if deep:
            # deep names: coarse signature (which side of 255 separators, sorts of early segments, few/many ordinary ones, tail longer than them?)
            ctx.sig(case["kind"], deep["separators"] > 255, tuple(deep["early_classes"]), min(deep["ordinary_before_tail"], 4),
                    deep["dotdot_in_tail"] > deep["ordinary_before_tail"], min(deep["dotdot_in_tail"], 3), len(names), case["form"], bool(raised))
        else:
            ctx.sig(case["kind"], tuple(shape(n) for n in names), tuple(shape("L" + m + ";") for c in case["classes"] for m in c["methods"]),
                    case["form"], bool(raised))
        if case["idx"] % 17 == 0:
            ctx.sample({"classes": case["classes"], "kind": case["kind"], "form": case["form"], "raised": raised,
                        "created": [p for p in new if not p.startswith(db_rel)][:6]})
    finally:
        RootGuard.get().disarm()
        os.chdir(old_cwd)
        shutil.rmtree(P, ignore_errors=True)


def shard(ctx, arg):
    from vf.monitor import fsaudit
    import androguard.cli.main  # noqa: F401  (import side effects happen before any window opens)
    sys.stdin = open(os.devnull)
    audit = fsaudit.FsAudit.get()
    for case in arg["cases"]:
        run_one(ctx, case, audit)


# ---- parent -----------------------------------------------------------------------------------------------------------------
def run(ctx):
    ctx.rule = ("one export_apps_to_format call on a generated DEX in a fresh nested sandbox; distinct non-trivial = distinct (feature kind, "
                "per-segment shape of every class name [.. / . / empty / long / backslash / space / plain], shape of every method name, form, raised?); "
                "deep class names: (over 255 separators?, sorts of early segments, ordinary segments before the tail [0..4+], tail '..' outnumber them?, "
                "tail '..' [0..3+], classes, form, raised?)")
    ctx.assumptions = [
        "Linux path semantics (backslash is an ordinary character)",
        "created = appears in the audit log as open-for-write/mkdir/rename/link/symlink/truncate/shutil destination, or is new/modified in the before/after listing of the canary root",
        "S/db (SQLite files of the Session) is excluded; exceptions raised by the export are acceptable outcomes",
        "at most %d '..' segments per case (deep class names: at most %d, with the sandbox nested one level deeper per surplus '..') so that a "
        "successful escape stays inside the canary root" % (MAX_DOTDOT, MAX_DEEP_DOTDOT),
    ]
    cases = gen_cases(ctx)
    nshards = 16 if ctx.quick else 32
    batches = [{"cases": cases[i::nshards]} for i in range(nshards)]
    batches = [b for b in batches if b["cases"]]
    td = tempfile.mkdtemp(prefix="vf_c37_cwd_")
    old = os.getcwd()
    try:
        os.chdir(td)  # children inherit a scratch cwd (never /repo or /verif)
        ctx.run_shards(MOD, "shard", batches, timeout=600)
    finally:
        os.chdir(old)
        shutil.rmtree(td, ignore_errors=True)
    ctx.extra["cases_generated"] = len(cases)
    ctx.extra["kinds"] = {k: sum(1 for c in cases if c["kind"] == k) for k in sorted(set(c["kind"] for c in cases))}
    ctx.require_counter("export_calls", 60)
    ctx.require_counter("hostile_names_reached_export", 40)
    ctx.require_counter("benign_files_created", 8)
    ctx.require_counter("audit_create_events", 50)
    ctx.require_counter("deep_class_name_exports", 20)
    ctx.require_counter("deep_names_over_255_separators", 12)
    ctx.require_counter("deep_names_over_255_separators_dropped_early_segments_and_dotdot_tail", 8)
    ctx.require_counter("deep_exports_completed_with_files_inside_out", 12)
    ctx.min_distinct = 30


def replay(ctx, path):
    with open(path) as f:
        j = json.load(f)
    cases = []
    for i, w in enumerate(j["witnesses"]):
        cases.append({"kind": j["mechanism"][len("escape-"):], "classes": w["classes"], "form": w.get("form"), "helper": w.get("helper_class_added", False),
                      "deep": w.get("deep_name"),
                      "hostile": None, "idx": i})
    ctx.rule = "replay of stored witnesses"
    ctx.min_distinct = 1
    ctx.run_shards(MOD, "shard", [{"cases": cases}], timeout=300)
