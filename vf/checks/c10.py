"""C10 (shared workload: vf/checks/blockwork.py)"""
from vf.checks import blockwork


def run(ctx):
    blockwork.run(ctx, "C10")
