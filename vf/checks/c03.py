"""C03 LEB128: real readuleb128/readuleb128p1/readsleb128/writeuleb128/writesleb128 vs Leb128.java semantics."""
import io
import itertools

from vf.harness import exc_str

M32 = 0xFFFFFFFF


# ---- reference model (Leb128.java; independent of androguard) ---------------
def ref_uleb(bs):
    """-> (value mod 2^32, consumed) or None if the 5th byte still has the continuation bit"""
    result = 0
    for i, b in enumerate(bs[:5]):
        result |= (b & 0x7F) << (7 * i)
        if not b & 0x80:
            return result & M32, i + 1
    return None


def ref_sleb(bs):
    result = 0
    for i, b in enumerate(bs[:5]):
        result |= (b & 0x7F) << (7 * i)
        if not b & 0x80:
            n = i + 1
            if n < 5:
                if b & 0x40:
                    result -= 1 << (7 * n)
            else:
                result &= M32
                if result & 0x80000000:
                    result -= 1 << 32
            return result, n
    return None


def enc_uleb(v):
    out = bytearray()
    while True:
        b = v & 0x7F
        v >>= 7
        if v:
            out.append(b | 0x80)
        else:
            out.append(b)
            return bytes(out)


def enc_sleb(v):
    out = bytearray()
    while True:
        b = v & 0x7F
        v >>= 7
        if (v == 0 and not b & 0x40) or (v == -1 and b & 0x40):
            out.append(b)
            return bytes(out)
        out.append(b | 0x80)


def in_domain_u(bs):
    """5th byte must only carry bits 0..3 (value fits in 32 bits) and must terminate"""
    r = ref_uleb(bs)
    if r is None:
        return False
    if r[1] == 5 and bs[4] & 0x70:
        return False
    return True


def in_domain_s(bs):
    r = ref_sleb(bs)
    if r is None:
        return False
    if r[1] == 5:
        # the fifth byte carries value bits 28..31 in its low nibble; bits 4..6 lie beyond 32 bits. They are in the domain when they are a sign
        # extension of bit 31 (canonical) or all zero (only the 32 value bits given: Leb128.java and the DEX tools read the low 32 bits)
        b = bs[4]
        ext = (b >> 4) & 0x7
        if ext != 0 and ext != (0x7 if b & 0x08 else 0):
            return False
    return True


class Stub:
    pass


def run(ctx):
    from androguard.core import dex

    cm = Stub()
    cm.packer = dex.DalvikPacker(0x12345678)
    ctx.rule = ("direct calls of the real LEB128 functions on byte sequences; a case is a byte sequence or a value; "
                "non-trivial/distinct = distinct (function, encoded length, canonical?, sign, boundary-class) signatures")
    ctx.assumptions = ["Leb128.java semantics re-implemented in vf/checks/c03.py is the reference",
                       "5-byte sequences whose fifth byte has bits 4-6 set inconsistently (more than 32 significant bits, undefined in the spec) are excluded"]
    rng = ctx.rng("c03")

    state = {"k": 0}

    def stream(bs):
        """the readers get whatever file object the caller has: a BytesIO, or (as DEX does for its own buffer) an io.BufferedReader - there the
        number is placed so that it STRADDLES the reader's internal buffer boundary. -> (file object, offset of the number)"""
        state["k"] += 1
        if state["k"] % 3 == 0 and len(bs) >= 2:
            size = 16 if state["k"] % 2 else io.DEFAULT_BUFFER_SIZE
            pre = size - 1 - (state["k"] // 3) % (len(bs) - 1 if len(bs) > 1 else 1)     # boundary falls after the 1st .. (n-1)th byte
            pre = max(0, pre)
            f = io.BufferedReader(io.BytesIO(b"\x00" * pre + bs + b"\xAA\xAA"), buffer_size=size)
            f.read(pre)
            ctx.count("reads_through_BufferedReader_across_its_buffer_boundary")
            return f, pre
        return io.BytesIO(bs + b"\xAA\xAA"), 0

    def check_decode(bs, tag):
        bs = bytes(bs)
        # unsigned
        if in_domain_u(bs):
            want, n = ref_uleb(bs)
            for fn, off, name in ((dex.readuleb128, 0, "readuleb128"), (dex.readuleb128p1, -1, "readuleb128p1")):
                f, base = stream(bs)
                ctx.ev()
                ctx.count(name)
                try:
                    got = fn(cm, f)
                except Exception as e:
                    ctx.violation(name + "-raises", "%s raises on a defined sequence" % name, {"bytes": bs, "exc": exc_str(e), "stream": type(f).__name__})
                    continue
                if got != want + off or f.tell() - base != n:
                    ctx.violation(name + "-value", "%s decodes to a different value or consumes a different length" % name,
                                  {"bytes": bs, "got": got, "want": want + off, "consumed": f.tell() - base, "want_consumed": n, "stream": type(f).__name__, "offset_in_stream": base})
            canon = enc_uleb(want) == bs[:n]
            ctx.sig("u", n, canon, want.bit_length())
        else:
            ctx.count("excluded_unsigned")
        if in_domain_s(bs):
            want, n = ref_sleb(bs)
            f, base = stream(bs)
            ctx.ev()
            ctx.count("readsleb128")
            try:
                got = dex.readsleb128(cm, f)
            except Exception as e:
                ctx.violation("readsleb128-raises", "readsleb128 raises on a defined sequence", {"bytes": bs, "exc": exc_str(e), "stream": type(f).__name__})
                return
            if got != want or f.tell() - base != n:
                ctx.violation("readsleb128-value", "readsleb128 decodes to a different value or consumes a different length",
                              {"bytes": bs, "got": got, "want": want, "consumed": f.tell() - base, "want_consumed": n, "stream": type(f).__name__, "offset_in_stream": base})
            canon = enc_sleb(want) == bs[:n]
            ctx.sig("s", n, canon, want < 0, abs(want).bit_length())
        else:
            ctx.count("excluded_signed")

    # 1. exhaustive: all 1- and 2-byte sequences (2-byte only meaningful if first has continuation bit,
    #    but the others are checked too: they must stop after one byte)
    for a in range(256):
        check_decode([a], "1")
    for a in range(256):
        for b in range(256):
            check_decode([a, b], "2")
    ctx.count("exhaustive_1_2_byte_sequences", 256 + 65536)
    # 2. boundary product for lengths 3..5
    B = [0x00, 0x01, 0x07, 0x08, 0x0F, 0x3F, 0x40, 0x7F, 0x80, 0x81, 0x87, 0x88, 0x8F, 0xBF, 0xC0, 0xFF]
    Bq = [0x00, 0x01, 0x3F, 0x40, 0x7F, 0x80, 0x81, 0xBF, 0xC0, 0xFF]
    cont = [b for b in Bq if b & 0x80]
    for n in (3, 4, 5):
        for pre in itertools.product(cont, repeat=n - 1):
            lasts = range(128) if (n == 5 or not ctx.quick) else [b for b in B if not b & 0x80]
            for last in lasts:
                check_decode(list(pre) + [last], "b%d" % n)
    # random sequences
    nrand = 30000 if ctx.quick else 1000000
    for _ in range(nrand):
        n = rng.randint(1, 5)
        bs = [rng.randrange(256) | 0x80 for _ in range(n - 1)] + [rng.randrange(128)]
        check_decode(bs, "r")
    # 3. encode -> decode
    vals = set()
    for k in range(0, 33):
        for d in (-2, -1, 0, 1, 2):
            for s in (1, -1):
                vals.add(s * (1 << k) + d)
    for _ in range(20000 if ctx.quick else 500000):
        vals.add(rng.randrange(-(1 << 31), 1 << 32))
        vals.add(rng.randrange(-(1 << 15), 1 << 16))
    for v in sorted(vals):
        if 0 <= v <= M32:
            ctx.ev()
            ctx.count("writeuleb128")
            try:
                r_ = dex.writeuleb128(cm, v)
                enc = bytes(r_)
                if isinstance(r_, (bytearray, list)):
                    # the usual way to build a stream: append to / insert into the buffer that was handed out; encoding the value again is not affected
                    r_ += b"\x55"
                    r_.insert(0, 0x33)
                    ctx.count("writer_results_modified_in_place_then_value_encoded_again")
                    again = bytes(dex.writeuleb128(cm, v))
                    if again != enc:
                        ctx.violation("writeuleb128-result-aliased", "encoding a value again after the caller appended to the first result gives other bytes",
                                      {"value": v, "first": enc, "again": again})
                back = dex.readuleb128(cm, io.BytesIO(enc + b"\xAA"))
            except Exception as e:
                ctx.violation("writeuleb128-raises", "writeuleb128/readuleb128 raise on a 32-bit value", {"value": v, "exc": exc_str(e)})
                continue
            if enc != enc_uleb(v) or back != v:
                ctx.violation("writeuleb128-roundtrip", "writeuleb128 is not the canonical encoding or does not round-trip",
                              {"value": v, "enc": enc, "want_enc": enc_uleb(v), "back": back})
            ctx.sig("wu", len(enc), v.bit_length())
            # p1: value v-1 is stored as v
            if v <= 0x7FFFFFFF:
                p1 = dex.readuleb128p1(cm, io.BytesIO(enc + b"\xAA"))
                ctx.ev()
                if p1 != v - 1:
                    ctx.violation("readuleb128p1-value", "uleb128p1 round trip differs", {"stored": v, "got": p1})
        if -(1 << 31) <= v < (1 << 31):
            ctx.ev()
            ctx.count("writesleb128")
            try:
                r_ = dex.writesleb128(cm, v)
                enc = bytes(r_)
                if isinstance(r_, (bytearray, list)):
                    # the usual way to build a stream: append to / insert into the buffer that was handed out; encoding the value again is not affected
                    r_ += b"\x55"
                    r_.insert(0, 0x33)
                    ctx.count("writer_results_modified_in_place_then_value_encoded_again")
                    again = bytes(dex.writesleb128(cm, v))
                    if again != enc:
                        ctx.violation("writesleb128-result-aliased", "encoding a value again after the caller appended to the first result gives other bytes",
                                      {"value": v, "first": enc, "again": again})
                back = dex.readsleb128(cm, io.BytesIO(enc + b"\xAA"))
            except Exception as e:
                ctx.violation("writesleb128-raises", "writesleb128/readsleb128 raise on a 32-bit value", {"value": v, "exc": exc_str(e)})
                continue
            if enc != enc_sleb(v) or back != v:
                ctx.violation("writesleb128-roundtrip", "writesleb128 is not the canonical encoding or does not round-trip",
                              {"value": v, "enc": enc, "want_enc": enc_sleb(v), "back": back})
            ctx.sig("ws", len(enc), v < 0, abs(v).bit_length())
    if ctx.shard is None:
        ctx.sample({"bytes": "e5 8e 26", "uleb": ref_uleb([0xE5, 0x8E, 0x26])[0], "sleb": ref_sleb([0xE5, 0x8E, 0x26])[0]})
        ctx.sample({"bytes": "ff ff ff ff 0f", "uleb": ref_uleb([0xFF] * 4 + [0x0F])[0], "sleb": ref_sleb([0xFF] * 4 + [0x0F])[0]})
        ctx.sample({"value": -2147483648, "sleb_enc": enc_sleb(-(1 << 31)).hex()})
    for c in ("readuleb128", "readsleb128", "readuleb128p1", "writeuleb128", "writesleb128"):
        ctx.require_counter(c)
    ctx.extra["exhaustive_part"] = "all 1- and 2-byte sequences"
    passive_contracts(ctx)


def passive_contracts(ctx):
    """icontract postconditions on the real readers while generated and shipped DEX files are parsed (the readers are reached through the parser,
    not called by the harness): every value the parser obtains must be a 32-bit quantity"""
    import glob
    import os
    from vf.monitor import contracts
    if not contracts.ensure_icontract():
        ctx.inconclusive("icontract is not installed and could not be installed from the wheelhouse")
        return
    from androguard.core import dex
    from vf.gen import classes as G
    from vf.model import dexw as W
    rec = contracts.Recorder()
    undo = contracts.install_leb_contracts(rec)
    try:
        rng = ctx.rng("c03-passive")
        datas = [W.write_dex(G.gen_model(rng)) for _ in range(40 if ctx.quick else 600)]
        for p in sorted(glob.glob("/repo/tests/data/APK/*.dex")):
            if os.path.getsize(p) < (20000 if ctx.quick else 700000):
                datas.append(open(p, "rb").read())
        for d in datas:
            try:
                dx = dex.DEX(d)
                for m in dx.get_encoded_methods():
                    m.get_code()
            except Exception as e:
                ctx.count("passive_parse_raised")
            ctx.count("passive_dex_parsed")
    finally:
        undo()
    for name, n in rec.evaluations.items():
        ctx.count("contract_evaluations_" + name, n)
        ctx.ev(n)
    for name, detail in rec.failures:
        ctx.violation("passive-" + name + "-out-of-range", "a LEB128 reader returned a value outside 32 bits while parsing a well-formed DEX file", {"value": detail})
    ctx.require_counter("contract_evaluations_readuleb128-32bit", 100)
