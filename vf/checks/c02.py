"""C02 linear-sweep disassembly recovers the instruction stream and always terminates.
(a) generated valid code in real DEX files -> get_instructions_idx / DCode helpers / DEX.disassemble vs the generator's ground truth
(b) LinearSweepAlgorithm.get_instructions on arbitrary / mutated buffers under a sys.monitoring step budget: every yielded
    instruction lies inside the code and re-encodes to the bytes at its offset, anything else is InvalidInstruction
(c) every method of the shipped DEX files vs the independent reference sweep (vf/model/dalvik.py)"""
import glob
import os

from vf.gen import cfg
from vf.harness import exc_str
from vf.model import dalvik as D
from vf.monitor import steps

MOD = "vf.checks.c02"


def opclass(units):
    ops = set()
    for o, n, d in D.sweep(units):
        ops.add("payload" if isinstance(d, tuple) else d.fmt)
    return tuple(sorted(ops))


def shard_valid(ctx, arg):
    idx, count = arg
    from androguard.core import dex
    rng = ctx.rng("c02a", idx)
    for k in range(count):
        ms = [cfg.gen_method(rng, max_tries=1) for _ in range(3)]
        version = rng.choice([b"035", b"039", b"039"])
        if k == 0:
            # systematic: every non-branching opcode once with the largest and once with the smallest argument list its format allows
            todo = [(op, n) for op in cfg.PLAIN_OPS for n in (5, 0)]
            rng.shuffle(todo)
            it = iter(todo)

            def nxt():
                op, n = next(it, (None, None))
                return cfg.rand_plain(rng, op=op, nregs=n)
            ms = [cfg.gen_method(rng, nslots=len(todo) // 2, max_tries=1, plain_source=nxt) for _ in range(3)]
            version = b"039"
            ctx.count("systematic_opcode_sweeps")
        data, w, names = cfg.make_dex(ms, version)
        try:
            dx = dex.DEX(data)
        except Exception as e:
            ctx.violation("valid-dex-parse-raises", "DEX() raises on generated valid code", {"exc": exc_str(e)})
            continue
        for m, nm in zip(ms, names):
            ctx.ev()
            ctx.count("valid_methods_swept")
            em = dx.get_encoded_methods_class_method(cfg.CLS, nm)
            want = [(o, l) for o, l, n in m.instr]
            wit = {"method_units": [("%04x" % u) for u in w.code_units[(cfg.CLS, nm, "V", ())][1]][:200], "features": m.features}
            try:
                got_ins = list(em.get_instructions_idx())
            except dex.InvalidInstruction as e:
                units = w.code_units[(cfg.CLS, nm, "V", ())][1]
                mech = "valid-code-rejected"
                msg = str(e)
                if "Unknown Instruction" in msg and any((u & 0xFF) == 0xFF and (u >> 8) for u in units):
                    mech = "opcode-ff-nonzero-register-rejected"
                ctx.violation(mech, "disassembly of valid code raises InvalidInstruction", dict(wit, exc=exc_str(e)))
                continue
            except Exception as e:
                ctx.violation("valid-code-raises", "disassembly of valid code raises", dict(wit, exc=exc_str(e)))
                continue
            got = [(i, ins.get_length()) for i, ins in got_ins]
            if got != want:
                ctx.violation("stream-differs", "yielded (offset, length) sequence differs from the assembled instructions", dict(wit, got=got[:60], want=want[:60]))
                continue
            code_bytes = D.units_to_bytes(w.code_units[(cfg.CLS, nm, "V", ())][1])
            consumed = sum(l for _, l in got)
            if consumed != len(code_bytes):
                ctx.violation("consumed-size", "disassembly does not consume exactly the declared code size", dict(wit, consumed=consumed, declared=len(code_bytes)))
            for (i, ins), (o, l, name) in zip(got_ins, m.instr):
                raw = bytes(ins.get_raw())
                if raw != code_bytes[o:o + l]:
                    ctx.violation("raw-differs-%s" % ("payload" if name == "payload" else "ins"), "an instruction does not re-encode to the bytes at its offset",
                                  dict(wit, offset=o, got=raw.hex(), want=code_bytes[o:o + l].hex()))
                    break
                if name not in ("payload",) and ins.get_name() != name:
                    ctx.violation("name-differs", "instruction mnemonic differs", dict(wit, offset=o, got=ins.get_name(), want=name))
                    break
            # DCode helpers
            bc = em.get_code().get_bc()
            for pos, (o, l, name) in enumerate(m.instr):
                if bc.off_to_pos(o) != pos or bc.get_ins_off(o) is not got_ins[pos][1]:
                    ctx.violation("dcode-off-lookup", "off_to_pos/get_ins_off disagree with the instruction list", dict(wit, offset=o))
                    break
            mid = [o + 1 for o, l, n in m.instr if l > 2][:3]
            for o in mid:
                if bc.get_ins_off(o) is not None or bc.off_to_pos(o) != -1:
                    ctx.violation("dcode-mid-instruction", "an offset inside an instruction resolves to an instruction", dict(wit, offset=o))
            # DEX.disassemble on the raw file offset
            coff = w.code_units[(cfg.CLS, nm, "V", ())][0] + 16
            try:
                dis = [x.get_length() for x in dx.disassemble(coff, len(code_bytes))]  # size is in bytes (the CLI passes a byte count)
                if dis != [l for o, l, n in m.instr]:
                    ctx.violation("disassemble-differs", "DEX.disassemble differs from the assembled instructions", dict(wit, got=dis[:40]))
            except Exception as e:
                ctx.violation("disassemble-raises", "DEX.disassemble raises on valid code", dict(wit, exc=exc_str(e)))
            ctx.sig(opclass(w.code_units[(cfg.CLS, nm, "V", ())][1]), m.features["switch"], m.features["fill"], m.features["new_ops"])
            if idx == 0 and k == 0:
                ctx.sample({"valid_method": [(o, l, n) for o, l, n in m.instr][:20]})


def shard_feff(ctx, arg):
    """exhaustive: opcodes 0xFE / 0xFF (const-method-handle / const-method-type, DEX 039) with EVERY register byte, inside valid code"""
    from androguard.core import dex
    from vf.model import dexw as W
    lo, hi = arg
    for aa in range(lo, hi):
        model = W.DexModel()
        model.version = b"039"
        c = model.add_class(cfg.CLS)
        # raw units: the two instructions with register byte aa, surrounded by ordinary instructions
        units = [0x0012, 0xFE | (aa << 8), 0x0000, 0x1012, 0xFF | (aa << 8), 0x0001, 0x0000, 0x0112, 0x000E]
        want = [(0, 2), (2, 4), (6, 2), (8, 4), (12, 2), (14, 2), (16, 2)]
        c.add_method("m", "V", (), W.ACC_STATIC | W.ACC_PUBLIC, W.Code(256, 0, 0, units))
        data = W.write_dex(model)
        ctx.ev()
        ctx.count("feff_register_bytes")
        wit = {"register_byte": aa, "units": ["%04x" % u for u in units]}
        try:
            dx = dex.DEX(data)
            em = dx.get_encoded_methods_class_method(cfg.CLS, "m")
            got = [(i, ins.get_length()) for i, ins in em.get_instructions_idx()]
            names = [ins.get_name() for ins in em.get_instructions()]
        except dex.InvalidInstruction as e:
            ctx.violation("opcode-fe-ff-register-byte-rejected", "valid code with const-method-handle/type and some register byte is rejected", dict(wit, exc=exc_str(e)))
            continue
        except Exception as e:
            ctx.violation("valid-code-raises", "disassembly of valid code raises", dict(wit, exc=exc_str(e)))
            continue
        if got != want or names[1] != "const-method-handle" or names[3] != "const-method-type":
            ctx.violation("opcode-fe-ff-register-byte-misdecoded", "const-method-handle/type with some register byte is decoded as something else (stream differs)", dict(wit, got=got, names=names, want=want))
        ctx.sig("feff", aa >> 4)
    ctx.count("exhaustive_feff", hi - lo)


def check_stream(ctx, dex, cm, buf, tag, budget, declared=None):
    """run the real sweep over arbitrary bytes under the step budget. declared: the code size (in units) handed to the sweep when the buffer is LONGER
    than the code (other bytes follow it): nothing yielded may reach past the declared end"""
    size = len(buf) // 2 if declared is None else declared
    ctx.ev()
    ctx.count("hostile_buffers_swept")
    if declared is not None:
        ctx.count("hostile_buffers_longer_than_the_declared_code")
    out = []
    wit = {"buffer": buf[:256].hex(), "len": len(buf), "kind": tag, "declared_code_units": size}

    def body():
        idx = 0
        for ins in dex.LinearSweepAlgorithm.get_instructions(cm, size, buf, 0):
            L = ins.get_length()
            out.append((idx, L))
            if L <= 0:
                ctx.violation("zero-length-instruction", "an instruction of length <= 0 is yielded", dict(wit, offset=idx))
                return
            # the length the Dalvik format table / the payload header gives for the code units at this offset (independent decoder)
            u = D.bytes_to_units(bytes(buf[idx:idx + 16]) + b"\0" * 16)
            if u[0] in (D.PAYLOAD_PACKED, D.PAYLOAD_SPARSE, D.PAYLOAD_ARRAY):
                ref_len = 2 * D.payload_units(u[:4] + [0, 0, 0])
                if idx + ref_len > 2 * size:
                    ctx.violation("payload-exceeds-code", "a payload whose header declares more data than the code holds is yielded instead of being reported invalid",
                                  dict(wit, offset=idx, declared_length=ref_len, reported_length=L, code_len=2 * size))
                    return
            else:
                dref = D.decode(u[:5])
                ref_len = None if dref is None else 2 * dref.units
            if ref_len is not None and ref_len != L:
                ctx.violation("length-differs-from-format-table", "a yielded instruction reports another length than its format / payload header fixes",
                              dict(wit, offset=idx, reported_length=L, format_length=ref_len))
                return
            if idx + L > 2 * size:
                op = ins.get_op_value()
                mech = "payload-exceeds-code" if op in (0x100, 0x200, 0x300) else "instruction-exceeds-code"
                ctx.violation(mech, "a yielded instruction does not lie entirely inside the code", dict(wit, offset=idx, length=L, code_len=2 * size))
                return
            try:
                raw = bytes(ins.get_raw())
            except Exception as e:
                ctx.violation("get_raw-raises", "get_raw raises on a yielded instruction", dict(wit, offset=idx, exc=exc_str(e)))
                return
            if raw != bytes(buf[idx:idx + L]):
                ctx.violation("raw-differs-hostile", "a yielded instruction does not re-encode to the bytes at its offset", dict(wit, offset=idx, got=raw.hex()[:80], want=bytes(buf[idx:idx + L]).hex()[:80]))
                return
            idx += L
    try:
        used = steps.run_with_budget(body, budget)
        ctx.maxi("max_steps_per_byte_x100", int(100 * used / max(1, len(buf))))
    except steps.BudgetExceeded:
        ctx.violation("step-budget-exceeded", "disassembly did not finish within the step budget", dict(wit, budget=budget))
    except dex.InvalidInstruction:
        ctx.count("invalid_instruction_reported")
    except Exception as e:
        ctx.violation("hostile-raises-%s" % type(e).__name__, "something else than InvalidInstruction is raised", dict(wit, exc=exc_str(e)))
    return out


ODEX_JUMBO_BYTES = dict([(0xF2, 10)] + [(a, 10) for a in range(0xF3, 0xF9)] + [(a, 8) for a in range(0xF9, 0x100)])   # 5rc / 52c: 5 units, 41c / 40sc: 4 units


def shard_mixed_formats(ctx, arg):
    """ONE process disassembles code of an ODEX-format class manager and of a plain one in turn. A unit aaFF (aa != 0) is const-method-type vAA in a
    plain DEX; in ODEX code F2FF..FFFF are the jumbo instructions of the optimizer and every other aaFF is no instruction. What one class manager
    was given may not change what the other one reports."""
    from androguard.core import dex
    lo, hi = arg

    def make_cm(odex):
        cm = dex.ClassManager(None)
        cm.packer = dex.DalvikPacker(0x12345678)
        cm.odex_format = odex
        return cm

    def sweep(cm, code):
        out, off = [], 0
        try:
            for ins in dex.LinearSweepAlgorithm.get_instructions(cm, len(code) // 2, code, 0):
                out.append((off, ins.get_length()))
                off += ins.get_length()
        except dex.InvalidInstruction:
            return "invalid"
        return out
    for aa in range(max(lo, 1), hi):
        plain_code = bytes([0xFF, aa, 0x01, 0x00, 0x0E, 0x00])
        odex_code = bytes([0x0E, 0x00, 0xFF, aa]) + bytes(8) + bytes([0x0E, 0x00])
        n = ODEX_JUMBO_BYTES.get(aa)
        want_odex = "invalid" if n is None else [(0, 2), (2, n)] + [(o, 2) for o in range(2 + n, 14, 2)]
        want_plain = [(0, 4), (4, 2)]
        order = ("odex", "plain", "odex") if aa % 2 else ("plain", "odex", "plain")
        hist = []
        for which in order:
            cm = make_cm(which == "odex")
            ctx.ev()
            ctx.count("sweeps_with_alternating_odex_and_plain_class_managers")
            try:
                got = sweep(cm, bytearray(plain_code if which == "plain" else odex_code) if aa % 3 == 0 else (plain_code if which == "plain" else odex_code))
            except Exception as e:
                got = "raises " + exc_str(e)
            want = want_plain if which == "plain" else want_odex
            hist.append(which)
            if got != want:
                first = len(hist) == 1
                ctx.violation("%s-code-misdecoded-%s" % (which, "first-in-process" if first else "after-the-other-format-was-disassembled"),
                              "a unit aaFF is decoded by the rules of the other file format", {"unit": "%02xff" % aa, "formats_in_order": hist, "got": got, "want": want})
                break
        ctx.sig("mixed", aa >> 4, order[0])


def shard_hostile(ctx, arg):
    idx, count = arg
    from androguard.core import dex
    rng = ctx.rng("c02b", idx)
    ms0 = [cfg.gen_method(rng) for _ in range(2)]
    data, w, names = cfg.make_dex(ms0)
    dx = dex.DEX(data)
    cm = dx.get_class_manager()
    # calibrate the budget on valid code
    ratio = 1
    for nm in names:
        b = D.units_to_bytes(w.code_units[(cfg.CLS, nm, "V", ())][1])
        try:
            used = steps.run_with_budget(lambda: list(dex.LinearSweepAlgorithm.get_instructions(cm, len(b) // 2, b, 0)), 10 ** 7)
            ratio = max(ratio, used / max(1, len(b)))
        except Exception:
            pass
    ctx.maxi("calibrated_steps_per_byte_x100", int(ratio * 100))

    def budget(n):
        return int(100 * (2000 + max(ratio, 30) * n))
    for k in range(count):
        r = rng.random()
        if r < 0.25:
            n = rng.choice([0, 1, 2, 3, 4, 6, 8, 16, 64, 255, 1024, 4096])
            alpha = rng.choice([None, [0x00, 0x01, 0x02, 0x03, 0xFF], [0x00, 0x26, 0x2B, 0x2C, 0x03, 0x01]])
            buf = bytes(rng.choice(alpha) if alpha else rng.randrange(256) for _ in range(n))
            tag = "random"
        elif r < 0.45:
            # crafted payload headers with huge size / width
            ident = rng.choice([0x0100, 0x0200, 0x0300])
            hdr = [ident, rng.choice([0, 1, 2, 4, 8, 0xFFFF, 0x7FFF]), rng.choice([0, 1, 0xFFFF]), rng.choice([0, 0x7FFF, 0xFFFF])]
            buf = D.units_to_bytes([rng.randrange(65536) & 0xFF00 | 0x00 if False else 0x000E] * 0 + hdr + [rng.randrange(65536) for _ in range(rng.randrange(0, 12))])
            if rng.random() < 0.5:
                buf = D.units_to_bytes([0x0012, 0x0000][: rng.randrange(3)]) + buf
            tag = "payload-header"
        else:
            m = cfg.gen_method(rng, misaligned=rng.random() < 0.3)
            d2, w2, n2 = cfg.make_dex([m])
            b = bytearray(D.units_to_bytes(w2.code_units[(cfg.CLS, n2[0], "V", ())][1]))
            mode = rng.choice(["byte", "bit", "trunc", "splice", "byte", "bit"])
            if mode == "byte" and b:
                for _ in range(rng.choice([1, 1, 2, 4])):
                    b[rng.randrange(len(b))] = rng.randrange(256)
            elif mode == "bit" and b:
                p = rng.randrange(len(b))
                b[p] ^= 1 << rng.randrange(8)
            elif mode == "trunc" and b:
                b = b[: rng.randrange(len(b))]
            elif mode == "splice" and len(b) > 4:
                p = rng.randrange(len(b) - 2)
                b[p:p] = bytes(rng.randrange(256) for _ in range(rng.choice([1, 2, 3])))
            buf = bytes(b)
            tag = "mutated-" + mode
        if k % 4 == 1 and len(buf) >= 4:
            # the code is only the first part of the buffer (DCode / the sweep get the declared size): the bytes behind it are not code
            check_stream(ctx, dex, cm, buf, tag + "+declared-size-smaller-than-buffer", budget(len(buf)), declared=rng.randrange(0, len(buf) // 2))
        out = check_stream(ctx, dex, cm, buf, tag, budget(len(buf)))
        if k % 3 == 0:
            # the same bytes through a DCode object asked several times (get_instructions is what EncodedMethod.get_instructions, get_raw,
            # off_to_pos ... go through): every call must give the answer of the first one - the same list or InvalidInstruction again
            ctx.count("dcode_objects_asked_repeatedly")
            dc = dex.DCode(cm, 0, len(buf) // 2, buf)
            answers = []
            for rep in range(3):
                try:
                    answers.append([(type(i).__name__, i.get_length()) for i in dc.get_instructions()])
                except dex.InvalidInstruction:
                    answers.append("InvalidInstruction")
                except Exception as e:
                    answers.append("raises %s" % type(e).__name__)
            if answers[1] != answers[0] or answers[2] != answers[0]:
                ctx.violation("dcode-repeated-call-differs", "DCode.get_instructions() answers differently when asked again about the same code",
                              {"buffer": buf[:256].hex(), "len": len(buf), "kind": tag, "answers": [a if isinstance(a, str) else "%d instructions, %d bytes" % (len(a), sum(x[1] for x in a)) for a in answers]})
            elif isinstance(answers[0], list) and out is not None and [l for _, l in answers[0]] != [l for _, l in out] and answers[0]:
                ctx.violation("dcode-differs-from-sweep", "DCode.get_instructions() yields another stream than LinearSweepAlgorithm on the same bytes",
                              {"buffer": buf[:256].hex(), "len": len(buf), "kind": tag})
        ctx.sig(tag, min(len(buf), 64) // 8, len(out or []) > 0, buf[:1].hex())
        if idx == 0 and k < 2:
            ctx.sample({"hostile_buffer": buf[:40].hex(), "kind": tag, "yielded": (out or [])[:10]})


def shard_shipped(ctx, arg):
    from androguard.core import dex
    from vf.model import dexr
    path = arg
    with open(path, "rb") as f:
        data = f.read()
    try:
        ref = dexr.read(data)
    except Exception as e:
        ctx.inconclusive("independent reader failed on %s: %s" % (path, exc_str(e)))
        return
    dx = dex.DEX(data)
    n = 0
    for em in dx.get_encoded_methods():
        code = em.get_code()
        if code is None:
            continue
        key = em.get_code_off()
        units = ref["code"].get(key)
        if units is None:
            ctx.violation("shipped-code-item-missing", "independent reader has no code item at this offset", {"file": os.path.basename(path), "off": key})
            continue
        ctx.ev()
        ctx.count("shipped_methods_swept")
        n += 1
        try:
            want = [(2 * o, 2 * l) for o, l, d in D.sweep(units)]
        except Exception as e:
            ctx.count("shipped_reference_sweep_failed")
            continue
        try:
            got = [(i, ins.get_length()) for i, ins in em.get_instructions_idx()]
        except Exception as e:
            ctx.violation("shipped-method-raises", "disassembly of a shipped method raises", {"file": os.path.basename(path), "method": str(em)[:100], "exc": exc_str(e)})
            continue
        if got != want:
            ctx.violation("shipped-stream-differs", "disassembly of a shipped method differs from the reference sweep", {"file": os.path.basename(path), "method": str(em)[:100], "got": got[:30], "want": want[:30]})
        if n % 50 == 0:
            ctx.sig("shipped", os.path.basename(path), n // 50)


def dispatch(ctx, arg):
    globals()[arg[0]](ctx, arg[1])


def shipped_dex_files():
    return sorted(glob.glob("/repo/tests/data/APK/*.dex"))


def run(ctx):
    ctx.rule = ("(a) random valid code items (all opcodes incl. 0xFE/0xFF with any register byte, payloads of random size with nop padding, DEX 035/039) placed in real DEX files: "
                "(offset,length) stream, consumed size, per-instruction get_raw, DCode.off_to_pos/get_ins_off, DEX.disassemble vs the generator's layout; "
                "(b) LinearSweepAlgorithm.get_instructions on random buffers, crafted payload headers and byte/bit/truncation/splice mutations of valid code under a "
                "sys.monitoring step budget calibrated on valid code (100x linear envelope): containment + round trip of every yielded instruction, only InvalidInstruction may be raised; "
                "(c) every method of the shipped DEX files vs an independent sweep. distinct non-trivial = distinct (format set, switch, fill, new opcodes) / (mutation kind, size class)")
    ctx.assumptions = ["vf/model/dalvik.py format table; vf/model/dexr.py independent reader for shipped files",
                       "step budget = 100 x (2000 + r*n) with r calibrated in-run; a super-linear loop with a small constant could pass"]
    nv = 60 if ctx.quick else 20000
    nh = 6000 if ctx.quick else 1500000
    args = [["shard_valid", [i, nv // 16 + 1]] for i in range(16)] + [["shard_hostile", [i, nh // 16 + 1]] for i in range(16)]
    args += [["shard_feff", [i * 64, (i + 1) * 64]] for i in range(4)]
    args += [["shard_mixed_formats", [i * 128, (i + 1) * 128]] for i in range(2)]
    files = shipped_dex_files()
    if ctx.quick:
        files = [f for f in files if os.path.getsize(f) < 1000000]
    args += [["shard_shipped", f] for f in files]
    ctx.run_shards(MOD, "dispatch", args, timeout=3000)
    ctx.require_counter("valid_methods_swept", 100)
    ctx.require_counter("feff_register_bytes", 256)
    ctx.require_counter("sweeps_with_alternating_odex_and_plain_class_managers", 700)
    ctx.require_counter("hostile_buffers_swept", 1000)
    ctx.require_counter("shipped_methods_swept", 50)
    ctx.require_counter("invalid_instruction_reported", 100)
    ctx.min_distinct = 20
