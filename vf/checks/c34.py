"""C34 APK file access returns the archive's entries.

Generated zip archives (vf/model/apkw.py on python zipfile) -> real androguard.core.apk.APK(bytes, raw=True); the oracle is the
model that produced the bytes, cross-checked by zipfile re-reading the same bytes.

Domain decisions (each can be challenged):
 * entry names are distinct (a dict-based reader cannot represent duplicates; zipfile itself warns), contain no NUL, and are written
   by zipfile: ASCII, or UTF-8 with general-purpose bit 11 set. cp437 names, zip64, data descriptors and encrypted entries are not generated.
 * the listing is compared as a multiset (the property does not fix an order); the DEX listing likewise.
 * a DEX entry is exactly a name matching ^classes[0-9]*\\.dex$ with ASCII digits and nothing after "dex" (so classes01.dex IS one;
   classesXdex, classes/dex, Classes.dex, lib/classes.dex, classes.dex.bak, a name with a non-ASCII digit or with a trailing line feed are not).
   Each look-alike family has its own mechanism string because each needs a different repair.
 * is_multidex() is compared by truth value with "more than one DEX entry".
 * get_dex(): content of classes.dex when present; when absent both b"" (what the code does) and FileNotPresent (what the docstring
   says) are accepted - the property does not speak about it.
 * a missing entry must raise FileNotPresent (returning anything or raising something else is a violation). Probed names: near
   misses of existing names (suffix added, last char dropped, case flipped, directory prefix, trailing slash) and the empty string.
 * the archive is accessed with and without a parseable AndroidManifest.xml (absent / garbage / valid, stored or deflated, any
   position); APK() must construct in all of them, since file access does not depend on the manifest.
"""
import re

from vf.harness import exc_str
from vf.model import apkw

MOD = "vf.checks.c34"

DEX_RE = re.compile(r"classes[0-9]*\.dex", re.ASCII)  # used with fullmatch: ^classes[0-9]*\.dex$ without the "$ before a final LF" leniency

DEX_NAMES = ["classes.dex", "classes2.dex", "classes3.dex", "classes4.dex", "classes5.dex", "classes10.dex", "classes01.dex",
             "classes0.dex", "classes00.dex", "classes123456789.dex", "classes99.dex"]
LOOKALIKES = {
    "unescaped-dot": ["classesXdex", "classes-dex", "classes_dex", "classes2Xdex", "classes/dex", "classes3/dex", "classes·dex"],
    "case": ["Classes.dex", "CLASSES.DEX", "classes.DEX", "classes2.Dex"],
    "nested": ["lib/classes.dex", "assets/classes2.dex", "META-INF/classes.dex", "a/b/classes3.dex", "classes/classes.dex"],
    "suffix": ["classes.dex.bak", "classes.dex2", "classes.dexx", "classes.dex/", "classes2.dex~", "classes.dex "],
    "prefix": ["xclasses.dex", "_classes2.dex", " classes.dex", "myclasses.dex", "./classes.dex"],
    "nondigit": ["classesA.dex", "classes-1.dex", "classes2a.dex", "classes 2.dex", "classes+2.dex", "classes2..dex", "classes.2.dex", "classes..dex"],
    "unicode-digit": ["classes٣.dex", "classes２.dex", "classes2١.dex"],
    "trailing-newline": ["classes.dex\n", "classes2.dex\n"],
}
KIND_OF = {n: k for k, v in LOOKALIKES.items() for n in v}
# which look-alike families a sloppy matcher could take for a DEX file: used only to name the mechanism of an observed mismatch
OTHER_NAMES = ["res/drawable/icon.png", "resources.arsc", "META-INF/MANIFEST.MF", "assets/é/ü.bin", "资源/文件.txt",
               "emoji\U0001f600.bin", "a b/c d.txt", "dir/", "dir/sub/", "a\\b.txt", "../x", "lib/armeabi-v7a/libfoo.so", "x",
               "български-عربي1234", "trailing.space ", "UPPER/Case.TXT", "kotlin/kotlin.kotlin_builtins",
               "n" * 300 + ".bin", "res/layout/main.xml", "r/ß.xml"]


def gen_content(rng, big=False):
    r = rng.random()
    if big:
        blk = rng.randbytes(4096)
        return (blk * 256)[: (1 << 20) + rng.randint(-3, 3)]
    if r < 0.15:
        return b""
    if r < 0.3:
        return rng.randbytes(1)
    if r < 0.6:
        return rng.randbytes(rng.randint(2, 300))
    if r < 0.8:
        return bytes(rng.choice(b"ab\n ") for _ in range(rng.randint(100, 6000)))  # compressible
    if r < 0.9:
        return b"dex\n035\x00" + rng.randbytes(rng.randint(0, 200))  # looks like a DEX header, content is never parsed by file access
    return rng.randbytes(rng.randint(1000, 20000))


def gen_extra(rng):
    if rng.random() < 0.75:
        return b""
    import struct
    body = rng.randbytes(rng.choice([0, 1, 4, 13]))
    return struct.pack("<HH", rng.choice([0xCAFE, 0xD935, 0x7075 + 1]), len(body)) + body


def gen_archive(rng, big=False):
    """-> (entries, manifest situation, comment, features)"""
    names = []
    ndex = rng.choice([0, 0, 1, 1, 1, 2, 2, 3, 4, 5])
    dexpool = list(DEX_NAMES)
    if rng.random() < 0.6:
        # realistic run: classes.dex, classes2.dex, ...
        run = ["classes.dex", "classes2.dex", "classes3.dex", "classes4.dex", "classes5.dex"]
        if rng.random() < 0.3:
            run = run[1:]  # numbered ones without classes.dex
        names += run[:ndex]
    else:
        rng.shuffle(dexpool)
        names += dexpool[:ndex]
    # look-alikes: feature-partitioned - mostly a single family per archive so that a mismatch can be attributed
    kinds = []
    r = rng.random()
    if r < 0.55:
        kinds = [rng.choice(sorted(LOOKALIKES))]
    elif r < 0.7:
        kinds = rng.sample(sorted(LOOKALIKES), 2)
    for k in kinds:
        pool = list(LOOKALIKES[k])
        rng.shuffle(pool)
        names += pool[: rng.choice([1, 1, 2, 3])]
    others = list(OTHER_NAMES)
    rng.shuffle(others)
    names += others[: rng.choice([0, 1, 2, 3, 5, 8])]
    # drop names that collide as file-vs-directory spellings of the same path ("classes/dex" with "classes/classes.dex" is fine)
    seen = set()
    uniq = []
    for n in names:
        if n not in seen and n != "AndroidManifest.xml":
            seen.add(n)
            uniq.append(n)
    rng.shuffle(uniq)
    entries = []
    for i, n in enumerate(uniq):
        if n.endswith("/"):
            entries.append(apkw.Entry(n, b"", apkw.STORED))
            continue
        data = gen_content(rng, big=(big and i == 0))
        entries.append(apkw.Entry(n, data, rng.choice([apkw.STORED, apkw.DEFLATED]), extra=gen_extra(rng),
                                  comment=rng.choice([b"", b"", b"c", b"entry comment"]), level=rng.choice([1, 6, 9])))
    situation = rng.choice(["valid-sdk9", "valid-sdk9", "valid-sdk23", "absent", "absent", "garbage", "nested-only"])
    comment = rng.choice([b"", b"", b"", b"archive comment", b"x" * 200])
    return entries, situation, comment, kinds


def assemble(rng, entries, situation, comment):
    entries = list(entries)
    pos = rng.randint(0, len(entries))
    method = rng.choice([apkw.STORED, apkw.DEFLATED])
    if situation.startswith("valid-"):
        entries.insert(pos, apkw.Entry("AndroidManifest.xml", apkw.manifest_blob(situation[6:]), method))
    elif situation == "garbage":
        entries.insert(pos, apkw.Entry("AndroidManifest.xml", rng.randbytes(rng.choice([0, 3, 8, 64, 700])), method))
    elif situation == "nested-only":
        entries.insert(pos, apkw.Entry("assets/AndroidManifest.xml", apkw.manifest_blob("sdk9"), method))
    return entries, apkw.build_zip(entries, comment)


def absent_probes(rng, names):
    s = set(names)
    cands = ["nope.bin", "", "classes.dex", "classes2.dex", "AndroidManifest.xml", "META-INF/MANIFEST.MF"]
    for n in names[:6]:
        cands += [n + "x", n[:-1], n.swapcase(), n + "/", n.rstrip("/"), "/" + n, n.split("/")[0], n.split("/")[0] + "/", n.lower(), n + "\n"]
    out = []
    for c in cands:
        if c not in s and c not in out and "\x00" not in c:
            out.append(c)
    return out


def witness(raw, entries, situation, extra):
    w = {"entries": [e.describe() for e in entries], "manifest": situation}
    if len(raw) < 3000:
        w["zip"] = raw  # stored as {"hex": ..., "len": ...}
    else:
        w["zip_len"] = len(raw)
    w.update(extra)
    return w


def check_one(ctx, apkmod, rng, entries0, situation, comment, kinds, sample=False, prebuilt=None):
    APK, FileNotPresent = apkmod.APK, apkmod.FileNotPresent
    entries, raw = prebuilt if prebuilt is not None else assemble(rng, entries0, situation, comment)
    probs = apkw.self_check(raw, entries, comment)
    if probs:
        ctx.inconclusive("apkw self-check failed: %s" % probs[:3])
        return
    names = [e.name for e in entries]
    content = {e.name: e.data for e in entries}
    zf = apkw.read_zip(raw)  # oracle #2: zipfile on the same bytes (already compared with the model by self_check)
    ctx.count("zipfile_cross_reads", len(zf))
    W = lambda **kw: witness(raw, entries, situation, kw)
    ctx.ev()
    try:
        a = APK(raw, raw=True)
    except Exception as e:
        ctx.violation("apk-constructor-raises-manifest-%s" % situation.split("-")[0], "APK(bytes, raw=True) raises on a well-formed archive", W(exc=exc_str(e)))
        return
    ctx.count("APK_constructed")
    # --- listing
    try:
        got = list(a.get_files())
        ctx.count("get_files")
        if sorted(got) != sorted(names):
            miss = sorted(set(names) - set(got))
            extra = sorted(set(got) - set(names))
            mech = "listing-differs"
            if miss and all(not n.isascii() for n in miss):
                mech = "listing-non-ascii-name-differs"
            ctx.violation(mech, "get_files() is not the list of archive entries", W(got=got, want=names, missing=miss, unexpected=extra))
    except Exception as e:
        ctx.violation("get_files-raises", "get_files() raises", W(exc=exc_str(e)))
    # --- content
    for n in names:
        ctx.count("get_file_present")
        try:
            d = a.get_file(n)
        except Exception as e:
            ctx.violation("get_file-raises-on-present-entry", "get_file(name) raises for an entry of the archive", W(name=n, exc=exc_str(e)))
            continue
        if bytes(d) != content[n]:
            e = next(x for x in entries if x.name == n)
            mech = "content-differs-%s%s" % ("deflated" if e.method == apkw.DEFLATED else "stored", "-empty" if not e.data else "")
            ctx.violation(mech, "get_file(name) is not the uncompressed content of the entry",
                          W(name=n, got_len=len(d), want_len=len(content[n]), got_head=bytes(d[:32]), want_head=content[n][:32]))
    # --- missing entries
    for n in absent_probes(rng, names):
        # asked twice in a row: a caller that caught the first FileNotPresent and retries gets the same answer
        for attempt in ("", "-on-the-second-request"):
            ctx.count("get_file_absent")
            try:
                d = a.get_file(n)
            except FileNotPresent:
                continue
            except Exception as e:
                ctx.violation("missing-entry-raises-other" + attempt, "get_file(absent name) raises something else than FileNotPresent", W(name=n, exc=exc_str(e)))
                break
            ctx.violation("missing-entry-returns-data" + attempt, "get_file(absent name) returns instead of raising FileNotPresent", W(name=n, got_len=len(d)))
            break
    # --- DEX listing
    want_dex = [n for n in names if DEX_RE.fullmatch(n)]
    present_kinds = sorted({KIND_OF[n] for n in names if n in KIND_OF})
    try:
        got_dex = list(a.get_dex_names())
        ctx.count("get_dex_names")
        for n in sorted(set(got_dex) - set(want_dex)):
            kind = KIND_OF.get(n, "other")
            ctx.violation("dex-lookalike-listed-%s" % kind, "get_dex_names() lists an entry that is not a root-level classes[0-9]*.dex",
                          W(name=n, got=got_dex, want=want_dex))
        for n in sorted(set(want_dex) - set(got_dex)):
            ctx.violation("dex-entry-not-listed", "get_dex_names() misses a root-level classes[0-9]*.dex entry", W(name=n, got=got_dex, want=want_dex))
        if sorted(got_dex) != sorted(want_dex) and set(got_dex) == set(want_dex):
            ctx.violation("dex-listed-twice", "get_dex_names() repeats an entry", W(got=got_dex, want=want_dex))
    except Exception as e:
        got_dex = None
        ctx.violation("get_dex_names-raises", "get_dex_names() raises", W(exc=exc_str(e)))
    try:
        got_all = [bytes(x) for x in a.get_all_dex()]
        ctx.count("get_all_dex")
        want_all = [content[n] for n in want_dex]
        if sorted(got_all) != sorted(want_all):
            # get_all_dex is "get_file over get_dex_names": when it is exactly the content of what get_dex_names listed, the cause is
            # the listing, which has been reported above under its own mechanism - only counted here, not a second mechanism
            if got_dex is not None and sorted(got_dex) != sorted(want_dex) and sorted(got_all) == sorted(content.get(n, b"?") for n in got_dex):
                ctx.count("all_dex_wrong_because_of_listing")
            else:
                ctx.violation("all-dex-content-differs", "get_all_dex() is not the content of exactly the root-level classes[0-9]*.dex entries",
                              W(got_lens=[len(x) for x in got_all], want_lens=[len(x) for x in want_all], want=want_dex))
    except Exception as e:
        ctx.violation("get_all_dex-raises", "get_all_dex() raises", W(exc=exc_str(e)))
    try:
        got_m = a.is_multidex()
        ctx.count("is_multidex")
        if bool(got_m) != (len(want_dex) > 1):
            # attribution by re-running with one look-alike family at a time next to the real DEX entries (is_multidex has its own matcher)
            mechs = []
            if got_m:
                for kind in present_kinds:
                    sub = [e for e in entries if e.name not in KIND_OF or KIND_OF[e.name] == kind]
                    try:
                        ctx.count("multidex_attribution_reruns")
                        if bool(APK(apkw.build_zip(sub, comment), raw=True).is_multidex()) != (len(want_dex) > 1):
                            mechs.append("multidex-counts-lookalike-%s" % kind)
                    except Exception:
                        pass
            if got_m and not mechs:
                # no single family reproduces it (e.g. one look-alike of each of two families and no DEX): a family contributes if removing it repairs the answer
                for kind in present_kinds:
                    sub = [e for e in entries if KIND_OF.get(e.name) != kind]
                    try:
                        ctx.count("multidex_attribution_reruns")
                        if bool(APK(apkw.build_zip(sub, comment), raw=True).is_multidex()) == (len(want_dex) > 1):
                            mechs.append("multidex-counts-lookalike-%s" % kind)
                    except Exception:
                        pass
            if not mechs:
                mechs = ["multidex-counts-lookalike-combination" if (got_m and present_kinds) else "multidex-flag-wrong"]
            for mech in mechs:
                ctx.violation(mech, "is_multidex() does not say whether more than one root-level classes[0-9]*.dex entry exists",
                              W(got=got_m, want=len(want_dex) > 1, dex=want_dex, lookalikes=[n for n in names if n in KIND_OF]))
    except Exception as e:
        ctx.violation("is_multidex-raises", "is_multidex() raises", W(exc=exc_str(e)))
    for attempt in ("", "-on-the-second-request"):
      try:
        ctx.count("get_dex")
        d = a.get_dex()
        if "classes.dex" in content:
            if bytes(d) != content["classes.dex"]:
                ctx.violation("get_dex-content-differs" + attempt, "get_dex() is not the content of classes.dex", W(got_len=len(d), want_len=len(content["classes.dex"])))
        elif d != b"":
            ctx.violation("get_dex-without-classes-dex-returns-data" + attempt, "get_dex() returns data although there is no classes.dex", W(got_len=len(d), got_head=bytes(d[:32])))
      except FileNotPresent as e:
        if "classes.dex" in content:
            ctx.violation("get_dex-raises" + attempt, "get_dex() raises although classes.dex exists", W(exc=exc_str(e)))
      except Exception as e:
        ctx.violation("get_dex-raises" + attempt, "get_dex() raises", W(exc=exc_str(e)))
    # --- coverage signature
    nonascii = any(not n.isascii() for n in names)
    nested = any("/" in n.rstrip("/") for n in names)
    methods = tuple(sorted({e.method for e in entries}))
    if len(names) >= 2 and (want_dex or present_kinds):
        ctx.sig(min(len(want_dex), 5), tuple(present_kinds), situation, nonascii, nested, methods, any(n.endswith("/") for n in names),
                any(not e.data for e in entries), "classes.dex" in content)
    if sample:
        ctx.sample({"names": names, "manifest": situation, "dex": want_dex, "multidex": len(want_dex) > 1, "zip_bytes": len(raw)})


def path_histories(ctx, apkmod, rng, count):
    """APK objects built from a PATH (raw=False): the file at one path is replaced by another archive between two constructions - of another size, and of
    exactly the same size with the same modification time (the archive comment pads the shorter one). Each object reports the archive that was at the
    path when it was built."""
    import os
    import shutil
    import tempfile
    APK = apkmod.APK
    root = tempfile.mkdtemp(prefix="vf_c34_")
    try:
        for k in range(count):
            ex, _, _, _ = gen_archive(rng)
            ey, _, _, _ = gen_archive(rng)
            ex = [e for e in ex if e.name != "AndroidManifest.xml"]
            ey = [e for e in ey if e.name != "AndroidManifest.xml"] + [apkw.Entry("only-in-the-second-%d.txt" % k, b"second", apkw.STORED)]
            x0, y0 = apkw.build_zip(ex, b""), apkw.build_zip(ey, b"")
            same_size = k % 2 == 0 and abs(len(x0) - len(y0)) < 60000
            if same_size:
                x = apkw.build_zip(ex, b"p" * max(0, len(y0) - len(x0)))
                y = apkw.build_zip(ey, b"q" * max(0, len(x0) - len(y0)))
                if len(x) != len(y):
                    same_size = False
            if not same_size:
                x, y = x0, y0
            path = os.path.join(root, "app%d.apk" % k)
            hist = []
            for label, data, entries in (("first", x, ex), ("second", y, ey), ("first-again", x, ex)):
                with open(path, "wb") as f:
                    f.write(data)
                os.utime(path, (1700000000, 1700000000))      # the same modification time for every version
                hist.append(label)
                ctx.ev()
                ctx.count("APK_built_from_a_path_whose_file_was_replaced" if len(hist) > 1 else "APK_built_from_a_path")
                if same_size and len(hist) > 1:
                    ctx.count("replaced_by_an_archive_of_the_same_size_and_mtime")
                wit = {"history": hist, "same_size_and_mtime": same_size, "sizes": [len(x), len(y)], "want": sorted(e.name for e in entries)[:20]}
                try:
                    a = APK(path)
                    got = sorted(a.get_files())
                    want = sorted(e.name for e in entries)
                    if got != want:
                        ctx.violation("path-object-lists-another-archive", "an APK built from a path lists the entries of the archive that was at that path earlier", dict(wit, got=got[:20]))
                        break
                    bad = [e.name for e in entries if bytes(a.get_file(e.name)) != e.data]
                    if bad:
                        ctx.violation("path-object-content-of-another-archive", "an APK built from a path returns content that is not the entry's", dict(wit, names=bad[:5]))
                        break
                    if label == "first":
                        try:
                            a.get_file("only-in-the-second-%d.txt" % k)
                            ctx.violation("path-object-missing-entry-readable", "an entry that is not in the archive is readable", wit)
                        except apkmod.FileNotPresent:
                            pass
                except Exception as e:
                    ctx.violation("path-object-raises", "APK(path) / file access raises on a well-formed archive", dict(wit, exc=exc_str(e)))
                    break
    finally:
        shutil.rmtree(root, ignore_errors=True)


def shard(ctx, arg):
    idx, count, big = arg
    from androguard.core import apk as apkmod
    rng = ctx.rng("c34", idx)
    for k in range(count):
        entries, situation, comment, kinds = gen_archive(rng, big=(big and k == 0))
        check_one(ctx, apkmod, rng, entries, situation, comment, kinds, sample=(idx < 3 and k == 1))
    path_histories(ctx, apkmod, ctx.rng("c34-paths", idx), 6 if ctx.quick else 60)
    if idx == 0:
        # fixed corner cases: empty archive, manifest only, every look-alike alone next to classes.dex
        check_one(ctx, apkmod, rng, [], "absent", b"", [])
        check_one(ctx, apkmod, rng, [], "valid-sdk9", b"", [])
        for kind, pool in sorted(LOOKALIKES.items()):
            for n in pool:
                for base in ([], ["classes.dex"]):
                    es = [apkw.Entry(b, b"dex:" + b.encode(), apkw.DEFLATED) for b in base] + [apkw.Entry(n, b"" if n.endswith("/") else b"la:" + n.encode("utf-8"), apkw.STORED)]
                    check_one(ctx, apkmod, rng, es, "valid-sdk9", b"", [kind])


def run(ctx):
    ctx.rule = ("zip archives from vf/model/apkw.py (python zipfile): 0..5 DEX entries (classes.dex, classesN.dex, classes01.dex, long numbers), look-alikes of 8 "
                "families (unescaped dot incl. classes/dex, case, nested, suffix, prefix, non-digit, non-ASCII digit, trailing LF), other entries with non-ASCII / nested / "
                "directory / backslash / 300-char names, stored and deflated (levels 1/6/9), empty, 1-byte, compressible, random and 1 MiB contents, extra fields, entry and archive "
                "comments; AndroidManifest.xml valid(minSdk 9/23)/absent/garbage/nested-only at any position. Observed: get_files, get_file on every entry and on near-miss "
                "absent names, get_dex_names, get_all_dex, is_multidex, get_dex. distinct non-trivial = distinct (#dex, look-alike families, manifest situation, "
                "non-ASCII, nested, methods, dir entry, empty entry, has classes.dex) over archives with >= 2 entries and a DEX or look-alike")
    ctx.assumptions = ["python zipfile writes/reads the archives correctly (used both as writer and as second reader; apkw.self_check compares them with the model)",
                       "entry names are distinct, NUL-free, ASCII or UTF-8 with the language-encoding flag; no zip64 / data descriptors / encryption",
                       "DEX entry = root-level name matching ^classes[0-9]*\\.dex$ with ASCII digits (classes01.dex counts)",
                       "get_dex() without classes.dex may return b'' or raise FileNotPresent"]
    n = 1600 if ctx.quick else 96000
    per = n // 16
    ctx.run_shards(MOD, "shard", [[i, per, (i == 0) or (not ctx.quick and i < 8)] for i in range(16)], timeout=1500)
    for c in ("APK_constructed", "get_files", "get_dex_names", "get_all_dex", "is_multidex"):
        ctx.require_counter(c, 200)
    ctx.require_counter("get_file_present", 1000)
    ctx.require_counter("APK_built_from_a_path_whose_file_was_replaced", 100)
    ctx.require_counter("replaced_by_an_archive_of_the_same_size_and_mtime", 30)
    ctx.require_counter("get_file_absent", 1000)
    ctx.min_distinct = 50


def replay_shard(ctx, arg):
    """re-run stored witnesses: the archive bytes (zip_hex) when stored, else an archive rebuilt from the stored entry names"""
    import io
    import zipfile
    from androguard.core import apk as apkmod
    rng = ctx.rng("c34-replay")
    for w in arg:
        situation = w.get("manifest", "absent")
        if "zip" in w and len(w["zip"]["hex"]) == 2 * w["zip"]["len"]:
            raw = bytes.fromhex(w["zip"]["hex"])
            with zipfile.ZipFile(io.BytesIO(raw)) as z:
                entries = [apkw.Entry(zi.filename, z.read(zi), zi.compress_type, comment=zi.comment) for zi in z.infolist()]
                comment = z.comment
            check_one(ctx, apkmod, rng, None, situation, comment, [], sample=True, prebuilt=(entries, raw))
        else:
            es = [apkw.Entry(e["name"], b"" if e["name"].endswith("/") else b"replay:" + e["name"].encode("utf-8"), apkw.DEFLATED if e["method"] == "deflated" else apkw.STORED)
                  for e in w["entries"] if e["name"] not in ("AndroidManifest.xml",)]
            check_one(ctx, apkmod, rng, es, situation if situation != "garbage" else "absent", b"", [], sample=True)
        ctx.sig("replay", len(ctx.sigs))


def replay(ctx, path):
    import json
    with open(path) as f:
        j = json.load(f)
    ctx.rule = "replay of the stored witnesses of mechanism %s" % j.get("mechanism")
    ctx.min_distinct = 1
    ctx.run_shards(MOD, "replay_shard", [j["witnesses"]], timeout=300)
