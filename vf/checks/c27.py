"""C27 typed resource values are formatted with Android's meaning (format_value, complexToFloat, get_resource_dimen/color,
ARSCResStringPoolRef.format_value)."""
import re
import io
import math
import struct

from vf.harness import exc_str

# Res_value data types (ResourceTypes.h)
T_NULL, T_REF, T_ATTR, T_STRING, T_FLOAT, T_DIM, T_FRAC = 0, 1, 2, 3, 4, 5, 6
T_DEC, T_HEX, T_BOOL = 0x10, 0x11, 0x12
T_ARGB8, T_RGB8, T_ARGB4, T_RGB4 = 0x1C, 0x1D, 0x1E, 0x1F
DIM_UNITS = ["px", "dip", "sp", "pt", "in", "mm"]
FRAC_UNITS = ["%", "%p"]


def complex_to_float(data):
    """TypedValue.complexToFloat: signed 24-bit mantissa in bits 8..31, radix in bits 4..5"""
    mant = data >> 8
    if mant & 0x800000:
        mant -= 1 << 24
    radix = (data >> 4) & 3
    return mant * (1.0, 2.0 ** -7, 2.0 ** -15, 2.0 ** -23)[radix]


def close(a, b):
    if math.isnan(a) or math.isnan(b):
        return math.isnan(a) and math.isnan(b)
    if math.isinf(a) or math.isinf(b):
        return a == b
    return abs(a - b) <= max(1e-6, 1e-5 * abs(b))


def split_num_suffix(s, suffixes):
    for suf in sorted(suffixes, key=len, reverse=True):
        if s.endswith(suf):
            return s[:-len(suf)], suf
    return s, None


def expected_ok(t, data, got):
    """-> None if ok, else mechanism name"""
    if t == T_REF or t == T_ATTR:
        pre = "@" if t == T_REF else "?"
        want = pre + ("android:" if (data >> 24) == 1 else "") + "%08X" % data
        return None if got.upper() == want.upper() and got.startswith(pre) and ("android:" in got) == ("android:" in want) else "reference-format"
    if t == T_FLOAT:
        f = struct.unpack("<f", struct.pack("<I", data))[0]
        try:
            g = float(got)
        except ValueError:
            return "float-unparsable"
        return None if close(g, f) else "float-value"
    if t == T_HEX:
        try:
            return None if re.fullmatch(r"0[xX][0-9A-Fa-f]+", got) and int(got, 16) == data else "hex-value"
        except ValueError:
            return "hex-value"
    if t == T_BOOL:
        return None if got == ("true" if data != 0 else "false") else "boolean-value"
    if t == T_DEC:
        want = data - (1 << 32) if data & 0x80000000 else data
        try:
            return None if re.fullmatch(r"-?[0-9]+", got) and int(got) == want else "int-dec-sign"
        except ValueError:
            return "int-dec-sign"
    if t in (T_ARGB8, T_RGB8, T_ARGB4, T_RGB4):
        try:
            # exactly '#' + 8 hex digits (int() would also accept blanks and signs)
            return None if re.fullmatch(r"#[0-9A-Fa-f]{8}", got) and int(got[1:], 16) == data else "colour-value"
        except ValueError:
            return "colour-value"
    if t == T_DIM:
        num, suf = split_num_suffix(got, DIM_UNITS)
        if suf != DIM_UNITS[data & 0xF]:
            return "dimension-unit"
        try:
            g = float(num)
        except ValueError:
            return "dimension-unparsable"
        if close(g, complex_to_float(data)):
            return None
        return "complex-mantissa-sign" if (data & 0x80000000) else "dimension-value"
    if t == T_FRAC:
        num, suf = split_num_suffix(got, FRAC_UNITS)
        if suf != FRAC_UNITS[data & 0xF]:
            return "fraction-unit"
        try:
            g = float(num)
        except ValueError:
            return "fraction-unparsable"
        if close(g, complex_to_float(data) * 100):
            return None
        return "complex-mantissa-sign" if (data & 0x80000000) else "fraction-value"
    raise AssertionError(t)


class FakeKey:
    def __init__(self, d):
        self.d = d

    def get_data(self):
        return self.d


class FakeAte:
    def __init__(self, d):
        self.key = FakeKey(d)

    def get_value(self):
        return "name"


def run(ctx):
    from androguard.core import axml
    ctx.rule = ("format_value(type, data) called directly, through ARSCResStringPoolRef.format_value (parsed from 8 Res_value bytes) and "
                "ARSCParser.get_resource_dimen/color; grid: every type x {sign bit, every radix x every defined unit, mantissa 0/+-1/+-max, 0/1/0xFFFFFFFF, "
                "NaN/inf/denormal floats, package ids 0/1/2/0x7f} plus random 32-bit data; distinct non-trivial = distinct (type, radix, unit, sign, mantissa class)")
    ctx.assumptions = ["numbers compared numerically (rel 1e-5 / abs 1e-6: androguard prints %f and uses truncated decimal radix constants)",
                       "undefined unit codes (dimension 6..15, fraction 2..15) and TYPE_NULL/TYPE_STRING are outside the statement and not generated",
                       "reference: TypedValue.complexToFloat (signed mantissa), Res_value type meanings from ResourceTypes.h"]
    rng = ctx.rng("c27")
    types = [T_REF, T_ATTR, T_FLOAT, T_DIM, T_FRAC, T_DEC, T_HEX, T_BOOL, T_ARGB8, T_RGB8, T_ARGB4, T_RGB4]

    class Parent:
        class stringpool_main:
            @staticmethod
            def getString(i):
                return "<s%d>" % i

    def one(t, data):
        paths = []
        ctx.ev()
        ctx.count("format_value")
        try:
            paths.append(("format_value", axml.format_value(t, data)))
        except Exception as e:
            ctx.violation("format_value-raises", "format_value raises on a defined type/data", {"type": t, "data": "%08x" % data, "exc": exc_str(e)})
        try:
            ref = axml.ARSCResStringPoolRef(io.BytesIO(struct.pack("<HBBI", 8, 0, t, data)), Parent)
            ctx.ev()
            ctx.count("ARSCResStringPoolRef.format_value")
            paths.append(("ARSCResStringPoolRef.format_value", ref.format_value()))
            if ref.is_reference() != (t == T_REF):
                ctx.violation("is_reference", "is_reference disagrees with the data type", {"type": t})
        except Exception as e:
            ctx.violation("poolref-raises", "ARSCResStringPoolRef raises", {"type": t, "data": "%08x" % data, "exc": exc_str(e)})
        for name, got in paths:
            mech = expected_ok(t, data, got)
            if mech:
                ctx.violation(mech, "printed value differs from Android's interpretation", {"via": name, "type": "0x%02x" % t, "data": "%08x" % data, "got": got})
        if t == T_DIM:
            ctx.ev()
            ctx.count("get_resource_dimen")
            try:
                r = axml.ARSCParser.get_resource_dimen(None, FakeAte(data))
                mech = expected_ok(t, data, r[1]) if isinstance(r[1], str) else "dimension-unit"
                if mech:
                    ctx.violation(mech, "printed value differs from Android's interpretation", {"via": "get_resource_dimen", "data": "%08x" % data, "got": r})
            except Exception as e:
                ctx.violation("get_resource_dimen-raises", "get_resource_dimen raises", {"data": "%08x" % data, "exc": exc_str(e)})
        if t in (T_ARGB8, T_RGB8, T_ARGB4, T_RGB4):
            ctx.ev()
            ctx.count("get_resource_color")
            r = axml.ARSCParser.get_resource_color(None, FakeAte(data))
            if expected_ok(t, data, r[1]):
                ctx.violation("colour-value", "get_resource_color prints a different colour", {"data": "%08x" % data, "got": r})
        # signature
        if t in (T_DIM, T_FRAC):
            mant = data >> 8
            mc = "0" if mant == 0 else "1" if mant == 1 else "-1" if mant == 0xFFFFFF else "max" if mant == 0x7FFFFF else "min" if mant == 0x800000 else ("neg" if mant & 0x800000 else "pos")
            ctx.sig(t, (data >> 4) & 3, data & 0xF, mc)
        else:
            ctx.sig(t, data >> 31, (data >> 24) in (0, 1, 2, 0x7F), data in (0, 1, 0xFFFFFFFF))

    def dom(t, data):
        if t == T_DIM:
            return (data & 0xF) < 6
        if t == T_FRAC:
            return (data & 0xF) < 2
        return True

    # grid
    mants = [0, 1, 2, 0x7F, 0x80, 0xFF, 0x100, 0x7FFFFF, 0x800000, 0x800001, 0xFFFFFF, 0xFFFFFE, 0xABCDEF, 0x123456]
    for t in (T_DIM, T_FRAC):
        for radix in range(4):
            for unit in range(6 if t == T_DIM else 2):
                for m in mants:
                    for resbits in (0, 0xC0):  # bits 6,7 are unused by Android
                        one(t, (m << 8) | resbits | (radix << 4) | unit)
    gen = [0, 1, 2, 0x7F, 0x80, 0xFF, 0x7FFFFFFF, 0x80000000, 0x80000001, 0xFFFFFFFF, 0xFFFFFFFE, 0x01000000, 0x01010001, 0x02000000, 0x7F010000,
           0x01FFFFFF, 0x00FFFFFF, 0x10000000, 0x3F800000, 0xBF800000, 0x7F800000, 0xFF800000, 0x7FC00000, 0x00000001, 0x00800000, 0x007FFFFF, 0x41200000, 0xC1200000,
           0x7F7FFFFF, 0xFF7FFFFF, 0x3DCCCCCD, 0x4B000000, 0x5F000000]
    for t in types:
        for d in gen:
            if dom(t, d):
                one(t, d)
    ctx.count("grid_cases", ctx.evaluations)
    n = 40000 if ctx.quick else 8000000
    for _ in range(n):
        t = rng.choice(types)
        d = rng.getrandbits(32)
        if t == T_DIM:
            d = (d & ~0xF) | rng.randrange(6)
        elif t == T_FRAC:
            d = (d & ~0xF) | rng.randrange(2)
        elif t == T_FLOAT and rng.random() < 0.5:
            # keep magnitudes printable: random exponent around 0
            d = (d & 0x807FFFFF) | (rng.randrange(100, 150) << 23)
        one(t, d)
    ctx.sample({"type": "dimension", "data": "ffffff01", "meaning": "%r dip" % complex_to_float(0xFFFFFF01), "got": axml.format_value(T_DIM, 0xFFFFFF01)})
    ctx.sample({"type": "fraction", "data": "00004031", "meaning": "%r %%p" % (complex_to_float(0x00004031) * 100), "got": axml.format_value(T_FRAC, 0x00004031)})
    ctx.sample({"type": "int_dec", "data": "ffffffff", "got": axml.format_value(T_DEC, 0xFFFFFFFF)})
    ctx.require_counter("format_value", 1000)
    ctx.require_counter("ARSCResStringPoolRef.format_value", 1000)
    ctx.require_counter("get_resource_dimen", 100)
