"""C16 multi-DEX analysis is independent of how the code is split and ordered: class sets written as one DEX and as every split into
1..4 DEX files (set partitions, capped) x every permutation of the add order, then one create_xref(); canonical analysis dumps must be equal."""
import itertools

from vf.checks.xrefwork import analyse, mkey_of
from vf.gen import refprog as R
from vf.harness import exc_str
from vf.model import dexw as W

MOD = "vf.checks.c16"


def dump(an):
    d = {}
    d["classes"] = sorted((c.name, bool(c.is_external())) for c in an.get_classes())
    d["methods"] = sorted((mkey_of(m), bool(m.is_external())) for m in an.get_methods())
    fields = {}
    for fa in an.get_fields():
        f = fa.get_field()
        k = (f.get_class_name(), f.get_name(), f.get_descriptor())
        e = fields.setdefault(k, {"read": set(), "write": set()})
        e["read"] |= {(ca.name, mkey_of(ma), off) for ca, ma, off in fa.get_xref_read(with_offset=True)}
        e["write"] |= {(ca.name, mkey_of(ma), off) for ca, ma, off in fa.get_xref_write(with_offset=True)}
    d["fields"] = sorted(fields)
    d["field_xrefs"] = {k: {"read": sorted(v["read"]), "write": sorted(v["write"])} for k, v in sorted(fields.items())}
    d["strings"] = sorted(s.get_orig_value() for s in an.get_strings())
    d["string_xrefs"] = {s.get_orig_value(): sorted((ca.name, mkey_of(ma), off) for ca, ma, off in s.get_xref_from(with_offset=True)) for s in an.get_strings()}
    mx = {}
    for m in an.get_methods():
        k = mkey_of(m)
        mx[k] = {
            "to": sorted((mkey_of(b), off) for a, b, off in m.get_xref_to()),
            "from": sorted((mkey_of(b), off) for a, b, off in m.get_xref_from()),
            "new": sorted((a.name, off) for a, off in m.get_xref_new_instance()),
            "cc": sorted((a.name, off) for a, off in m.get_xref_const_class()),
        }
        if not m.is_external():
            def fk(f):
                ff = f.get_field() if hasattr(f, "get_field") else f
                return (ff.get_class_name(), ff.get_name(), ff.get_descriptor())
            mx[k]["read"] = sorted((fk(f), off) for a, f, off in m.get_xref_read())
            mx[k]["write"] = sorted((fk(f), off) for a, f, off in m.get_xref_write())
    d["method_xrefs"] = mx
    cx = {}
    for c in an.get_classes():
        cx[c.name] = {
            "to": sorted((oc.name, int(kind), mkey_of(m2), off) for oc, refs in c.get_xref_to().items() for kind, m2, off in refs),
            "from": sorted((oc.name, int(kind), mkey_of(m2), off) for oc, refs in c.get_xref_from().items() for kind, m2, off in refs),
            "new": sorted((mkey_of(m2), off) for m2, off in c.get_xref_new_instance()),
            "cc": sorted((mkey_of(m2), off) for m2, off in c.get_xref_const_class()),
        }
    d["class_xrefs"] = cx
    d["callgraph"] = sorted((mkey_of(a), mkey_of(b)) for a, b in an.get_call_graph().edges())
    return d


def diff_paths(a, b, path=()):
    out = []
    if isinstance(a, dict) and isinstance(b, dict):
        for k in sorted(set(a) | set(b), key=repr):
            if k not in a or k not in b:
                out.append((path + (k,), a.get(k), b.get(k)))
            else:
                out += diff_paths(a[k], b[k], path + (k,))
        return out
    if a != b:
        out.append((path, a, b))
    return out


def partitions(items, maxblocks):
    """set partitions into at most maxblocks blocks"""
    if not items:
        yield []
        return
    first, rest = items[0], items[1:]
    for p in partitions(rest, maxblocks):
        for i in range(len(p)):
            yield p[:i] + [[first] + p[i]] + p[i + 1:]
        if len(p) < maxblocks:
            yield [[first]] + p


def cross_dex_accesses(classes, class_to_dex):
    defined = {(c.name, f[0], f[1]): c.name for c in classes for f in c.sfields + c.ifields}
    out = set()
    for c in classes:
        for m in c.methods:
            for off, kind, opname, tgt in m.sites:
                if kind.startswith("field-") and tgt in defined and class_to_dex[defined[tgt]] != class_to_dex[c.name]:
                    out.add((tgt, m.key, off))
    return out


def shard(ctx, arg):
    idx, count = arg
    rng = ctx.rng("c16", idx)
    for k in range(count):
        classes = R.gen_program(rng, nclasses=rng.choice([2, 3, 3, 4, 5, 6]))
        # string_ids only store offsets: the string data items of a file may lie in any order (each file of a split gets its own order)
        if rng.random() < 0.3:
            srng = __import__("random").Random(rng.getrandbits(32))
            wopts = lambda: {"string_data_order": __import__("random").Random(srng.getrandbits(32))}
            ctx.count("programs_with_string_data_in_another_order")
        else:
            wopts = lambda: None
        single = W.write_dex(R.to_model(classes), wopts())
        try:
            an0, _ = analyse([single])
            base = dump(an0)
        except Exception as e:
            ctx.violation("single-dex-analysis-raises", "analysis of the single DEX raises", {"exc": exc_str(e)})
            continue
        parts = [p for p in partitions(list(range(len(classes))), 4) if len(p) >= 2]
        rng.shuffle(parts)
        parts = parts[: (3 if ctx.quick else 12)]
        for p in parts:
            orders = list(itertools.permutations(range(len(p))))
            if len(orders) > (6 if ctx.quick else 24):
                rng.shuffle(orders)
                orders = orders[: (6 if ctx.quick else 24)]
            datas = [W.write_dex(R.to_model([classes[i] for i in blk]), wopts()) for blk in p]
            if rng.random() < 0.5:
                # the pieces are first analysed on their own (classes of the other pieces are external there), each in an Analysis of its own,
                # in the same process: nothing of that may be left when the pieces are analysed together afterwards
                for j, dta in enumerate(datas):
                    ctx.count("pieces_analysed_alone_before_the_split")
                    try:
                        analyse([dta])
                    except Exception as e:
                        ctx.violation("piece-alone-analysis-raises", "analysis of one piece of a split on its own raises", {"piece": [classes[i].name for i in p[j]], "exc": exc_str(e)})
            for order in orders:
                ctx.ev()
                ctx.count("split_analyses")
                hist = [[classes[i].name for i in p[j]] for j in order]
                class_to_dex = {classes[i].name: j for j, blk in enumerate(p) for i in blk}
                try:
                    an, _ = analyse([datas[j] for j in order])
                    got = dump(an)
                except Exception as e:
                    ctx.violation("split-analysis-raises", "analysis of a split raises", {"add_order": hist, "exc": exc_str(e)})
                    continue
                diffs = diff_paths(base, got)
                if diffs:
                    # explain-away: is every difference a dropped access to a field defined in another DEX (known C14 mechanism)?
                    cross = cross_dex_accesses(classes, class_to_dex)
                    unexplained = []
                    for path, a, b in diffs:
                        if len(path) == 3 and (path[0] == "field_xrefs" or (path[0] == "method_xrefs" and path[2] in ("read", "write"))):
                            sa = set(map(repr, a or []))
                            sb = set(map(repr, b or []))
                            if sb - sa:
                                unexplained.append((path, a, b))
                                continue
                            missing = [x for x in (a or []) if repr(x) not in sb]
                            ok = True
                            for x in missing:
                                if path[0] == "field_xrefs":
                                    item = (path[1], tuple(x[1]), x[2])
                                else:
                                    item = (tuple(x[0]), path[1], x[1])
                                if item not in cross:
                                    ok = False
                            if not ok:
                                unexplained.append((path, a, b))
                        else:
                            unexplained.append((path, a, b))
                    if unexplained:
                        top = unexplained[0][0][0]
                        ctx.violation("split-differs-%s" % top, "the analysis of a split differs from the single-DEX analysis", {"add_order": hist, "path": unexplained[0][0], "single": unexplained[0][1], "split": unexplained[0][2],
                                                                                                                         "classes": [(c.name, [(m.key, m.sites) for m in c.methods]) for c in classes][:3]})
                    else:
                        ctx.violation("cross-dex-field-access-dropped", "accesses to a field defined in another DEX of the same analysis are missing", {"add_order": hist, "path": diffs[0][0], "single": diffs[0][1], "split": diffs[0][2]})
                ctx.sig(len(classes), tuple(sorted(len(b) for b in p)), order == tuple(range(len(p))), bool(cross_dex_accesses(classes, class_to_dex)))
        if idx == 0 and k < 2:
            ctx.sample({"classes": [c.name for c in classes], "example_split": [[classes[i].name for i in blk] for blk in parts[0]] if parts else None})


def run(ctx):
    ctx.rule = ("class sets (2..6 classes with cross-class calls, field accesses, strings, instantiations) written as ONE DEX and as set partitions into 2..4 DEX files "
                "(quick: 3 partitions x <=6 add orders per class set; thorough: 12 partitions x all <=24 orders), Analysis.add in each order then one create_xref(); canonical dump "
                "(classes, methods, fields, strings, every xref table by name and offset, call graph) compared with the single-DEX dump. distinct non-trivial = distinct "
                "(#classes, block sizes, identity order?, has cross-DEX field access)")
    ctx.assumptions = ["differences that consist ONLY of dropped accesses to fields defined in another DEX are attributed to the known C14 mechanism cross-dex-field-access-dropped",
                       "FieldAnalysis objects of one field are merged in the dump (duplicate FieldAnalysis objects are C14's finding)"]
    n = 64 if ctx.quick else 4800
    ctx.run_shards(MOD, "shard", [[i, n // 16] for i in range(16)], timeout=3000)
    ctx.require_counter("split_analyses", 200)
    ctx.require_counter("pieces_analysed_alone_before_the_split", 50)
    ctx.min_distinct = 8
