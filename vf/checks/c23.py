"""C23 Java string literals denote exactly the original string.
quick: own JLS decoder (unicode escapes first, then escape sequences); thorough: additionally real javac + java printing the code units."""
from vf.harness import exc_str
from vf.model import javaoracle as J

PER_CLASS = 4000


def gen_strings(rng, n):
    out = []
    pools = [
        lambda: chr(rng.randrange(0x20, 0x7F)),
        lambda: chr(rng.randrange(0, 0x20)),
        lambda: rng.choice('"\'\\\n\r\t\b\f\0u\\\\'),
        lambda: chr(rng.randrange(0x7F, 0x800)),
        lambda: chr(rng.randrange(0x800, 0xD800)),
        lambda: chr(rng.randrange(0xD800, 0xE000)),  # lone surrogate
        lambda: chr(rng.randrange(0xE000, 0x10000)),
        lambda: chr(rng.randrange(0x10000, 0x110000)),
        lambda: rng.choice(["\\u0041", "\\n", "\\\\u000a", "\\", "\\\\", "u000a", " ", " ", "\x7f", "\x85", "*/", "//", "\"+\""]),
    ]
    for _ in range(n):
        k = rng.choice([1, 1, 2, 3, 5, 8, 20, 60])
        w = [rng.random() for _ in pools]
        s = "".join(rng.choices(pools, weights=w)[0]() for _ in range(k))
        out.append(s)
    return out


def classify(s, lit, got_units):
    if any(ord(c) > 0xFFFF for c in s):
        return "non-bmp-escape"
    if any(0xD800 <= ord(c) < 0xE000 for c in s):
        return "lone-surrogate"
    if any(c in s for c in "\"'\\"):
        return "quote-or-backslash"
    if any(ord(c) < 0x20 or ord(c) == 0x7F for c in s):
        return "control-char"
    if any(ord(c) > 0x7F for c in s):
        return "bmp-non-ascii"
    return "ascii"


def sigclass(s):
    cl = set()
    for c in s:
        o = ord(c)
        cl.add("ctl" if o < 0x20 else "q" if c in "\"'\\" else "asc" if o < 0x7F else "del" if o == 0x7F else "l1" if o < 0x800 else
               "sur" if 0xD800 <= o < 0xE000 else "bmp" if o < 0x10000 else "supp")
    return tuple(sorted(cl)), min(len(s), 4)


def run(ctx):
    from androguard.decompiler import writer
    ctx.rule = ("writer.string(s) for all 65536 BMP code points as one-char strings (incl. surrogates) + random strings over the full range "
                "(controls, quotes, backslashes, 'u' after backslash, lone surrogates, supplementary); literal decoded with JLS 3.3 + 3.10.7 and compared as UTF-16 code units"
                + ("; thorough: the same literals compiled by javac and printed by a JVM" if not ctx.quick else "")
                + ". distinct non-trivial = distinct (character-class set, length class) containing a non-printable-ASCII class")
    ctx.assumptions = ["own JLS lexer in vf/model/javaoracle.py (cross-checked against javac in the thorough tier)"]
    rng = ctx.rng("c23")
    cases = [chr(i) for i in range(0x10000)]
    ctx.count("bmp_single_char_strings", 0x10000)
    cases += [chr(i) for i in (0x10000, 0x10001, 0x1F600, 0x1FFFF, 0x20000, 0xFFFFF, 0x100000, 0x10FFFF, 0x10FFFE)]
    cases += ["", "\\", "\\\\", "\\u", "\\u0041", "a\\", "\"", "'", "\n\r\t", "😀", "\ude00\ud83d", "\U0001F600x", "0\U0001F6000", "\\u000a", "\\\n"]
    cases += gen_strings(rng, 20000 if ctx.quick else 200000)
    lits = []
    for s in cases:
        ctx.ev()
        ctx.count("writer.string")
        try:
            lit = writer.string(s)
        except Exception as e:
            ctx.violation("string-raises", "writer.string raises", {"s": J.utf16_units(s)[:40], "exc": exc_str(e)})
            lits.append(None)
            continue
        lits.append(lit)
        want = J.utf16_units(s)
        try:
            got = J.jls_decode_string_literal(lit)
        except J.JLSError as e:
            ctx.violation("literal-malformed-" + classify(s, lit, None), "literal is not a well-formed Java string literal", {"units": want[:40], "literal": lit[:200], "error": str(e)})
            continue
        if got != want:
            ctx.violation(classify(s, lit, got), "literal denotes a different UTF-16 sequence", {"units": want[:40], "literal": lit[:200], "denotes": got[:40]})
        sc = sigclass(s)
        if sc[0] != ("asc",):
            ctx.sig(*sc)
    # wear: the same process has by now escaped every BMP code point; escape every supplementary one as well (1 114 112 distinct code points in all), then
    # ask again for the literals of the ASCII specials and of a sample of everything - an answer may not depend on how much was escaped before
    for base in range(0x10000, 0x110000, 0x400):
        ctx.count("code_points_escaped_before_the_second_pass", 0x400)
        try:
            writer.string("".join(chr(c) for c in range(base, base + 0x400)))
        except Exception as e:
            ctx.violation("string-raises", "writer.string raises", {"plane_block": "%x" % base, "exc": exc_str(e)})
            break
    second = [chr(i) for i in range(0x100)] + ["\"", "\\", "a\"b\\c\n\r\t'", "\\u0041", "\n\r", "x\0y", "\x7f\x85"] + rng.sample(cases, 3000)
    for s in second:
        ctx.ev()
        ctx.count("writer.string_second_pass")
        try:
            got = J.jls_decode_string_literal(writer.string(s))
        except Exception as e:
            ctx.violation("second-pass-" + classify(s, None, None), "after the process has escaped every code point once, the literal of a string is malformed / raises",
                          {"units": J.utf16_units(s)[:40], "error": exc_str(e)})
            continue
        if got != J.utf16_units(s):
            ctx.violation("second-pass-" + classify(s, None, None), "after the process has escaped every code point once, the literal of a string denotes something else",
                          {"units": J.utf16_units(s)[:40], "literal": writer.string(s)[:200], "denotes": got[:40]})
    end_to_end(ctx, rng)
    ctx.sample({"s_units": J.utf16_units("a\"\\\n\U0001F600"), "literal": writer.string("a\"\\\n\U0001F600")})
    ctx.sample({"s_units": [0xD800], "literal": writer.string("\ud800")})
    ctx.exhaustive = True
    ctx.extra["exhaustive_part"] = "all 65536 BMP code points as one-char strings"
    if not ctx.quick:
        if not J.available():
            ctx.inconclusive("javac/java not found")
            return
        javac_oracle(ctx, cases, lits)
    ctx.require_counter("writer.string", 65536)
    ctx.require_counter("writer.string_second_pass", 3000)
    ctx.require_counter("code_points_escaped_before_the_second_pass", 0x100000)
    ctx.require_counter("const_strings_decompiled", 200)


def end_to_end(ctx, rng):
    """const-string instructions through the whole decompiler (observe_at DvMethod.get_source): `return <literal>;` must denote the constant.
    Includes the strings that look like other Java tokens (true, false, null, numbers, identifiers, empty)."""
    import re
    from vf.checks import c21
    from vf.model import dexw as W
    special = ["Dear {{name}}, welcome", "{0} of {1}", "{}", "%s %d %%", "true", "false", "null", "0", "1", "-1", "1.5", "0x10", "this", "super", "int", "a", "", " ", "True", "TRUE", "false ", "\"true\"", "'c'", "1L", "NaN", "void", "p0", "v0"]
    n = 300 if ctx.quick else 6000
    strs = special + gen_strings(rng, n)
    per = 100
    for base in range(0, len(strs), per):
        chunk = strs[base:base + per]
        m = W.DexModel()
        c = m.add_class("Ls/K%d;" % base)
        for i, st in enumerate(chunk):
            c.add_method("s%d" % i, "Ljava/lang/String;", (), W.ACC_PUBLIC | W.ACC_STATIC, W.Code(1, 0, 0, [("const-string", 0, W.Str(st)), ("return-object", 0)]))
            c.add_field("f%d" % i, "Ljava/lang/String;", W.ACC_PUBLIC | W.ACC_STATIC | W.ACC_FINAL, init=W.EV(W.V_STRING, st))
        # a String constant next to a NUMBER of the same spelling in one call / one array store ("7" and 7): each operand keeps its own kind
        numlike = ["0", "1", "7", "12", "-1", "100"] if base == 0 else []
        two = W.Mth("Ls/K%d;" % base, "two", "Ljava/lang/String;", ("Ljava/lang/String;", "I"))
        if numlike:
            c.add_method("two", "Ljava/lang/String;", ("Ljava/lang/String;", "I"), W.ACC_PUBLIC | W.ACC_STATIC | W.ACC_NATIVE, None)
        for i, st in enumerate(numlike):
            for order in (0, 1):
                load = [("const-string", 0, W.Str(st)), ("const/16", 1, int(st))]
                c.add_method("n%d_%d" % (i, order), "Ljava/lang/String;", (), W.ACC_PUBLIC | W.ACC_STATIC,
                             W.Code(2, 0, 2, (load if order == 0 else load[::-1]) + [("invoke-static", [0, 1], two), ("move-result-object", 0), ("return-object", 0)]))
        try:
            d, dx = c21.load_dad(W.write_dex(m))
            src = d.get_class("Ls/K%d;" % base).get_source()
        except Exception as e:
            ctx.violation("e2e-decompile-raises", "decompiling a class of const-string methods raises", {"exc": exc_str(e)})
            continue
        for i, st in enumerate(numlike):
            for order in (0, 1):
                ctx.ev()
                ctx.count("calls_with_a_string_and_a_number_of_the_same_spelling")
                mm = re.search(r" n%d_%d\(\)\s*\{\s*return [^\n]*?two\(([^\n]*), ([^\n]*?)\);\s*\n    \}" % (i, order), src)
                if not mm:
                    ctx.violation("e2e-call-not-printed", "a method `return two(<string>, <int>);` is not printed in that form", {"string": st, "source": src[-600:]})
                    continue
                a1, a2 = mm.group(1).strip(), mm.group(2).strip()
                try:
                    ok = J.jls_decode_string_literal(a1) == J.utf16_units(st) and int(a2, 0) == int(st)
                except Exception:
                    ok = False
                if not ok:
                    ctx.violation("e2e-string-and-number-of-the-same-spelling-mixed-up", "in a call taking the String constant \"N\" and the int N the printed arguments are not a string literal and a number",
                                  {"string": st, "printed": [a1[:60], a2[:60]], "loaded_first": "string" if order == 0 else "number"})
        for i, st in enumerate(chunk):
            ctx.ev()
            ctx.count("const_strings_decompiled")
            want = J.utf16_units(st)
            mm = re.search(r" s%d\(\)\s*\{\s*return (.*?);\s*\n    \}" % i, src, re.S)
            if not mm:
                ctx.violation("e2e-method-not-printed", "a const-string method is missing / not of the form `return <literal>;` in the decompiled class", {"units": want[:40], "source": src[:300]})
                continue
            lit = mm.group(1).strip()
            try:
                got = J.jls_decode_string_literal(lit)
            except J.JLSError as e:
                mech = "e2e-constant-not-printed-as-string-literal" if not lit.startswith('"') else "e2e-literal-malformed-" + classify(st, lit, None)
                ctx.violation(mech, "the decompiled method does not return a well-formed Java string literal", {"units": want[:40], "printed": lit[:200], "error": str(e)})
                continue
            if got != want:
                ctx.violation("e2e-" + classify(st, lit, got), "the literal in the decompiled method denotes a different UTF-16 sequence", {"units": want[:40], "literal": lit[:200], "denotes": got[:40]})
            ctx.sig("e2e", *sigclass(st))
            # the same constant as the initial value of a static String field (printed by DvClass.get_source, not by the method writer)
            fm = re.search(r" f%d = (.*);$" % i, src, re.M)
            ctx.count("string_field_initialisers_decompiled")
            if not fm:
                if st != "":
                    ctx.violation("e2e-field-initialiser-not-printed", "a static String field with an initial value is printed without it", {"units": want[:40]})
                continue
            try:
                got = J.jls_decode_string_literal(fm.group(1).strip())
            except J.JLSError as e:
                ctx.violation("e2e-field-initialiser-literal-malformed-" + classify(st, "", None), "the initialiser of a String field is not a well-formed Java string literal",
                              {"units": want[:40], "printed": fm.group(1)[:200], "error": str(e)})
                continue
            if got != want:
                ctx.violation("e2e-field-initialiser-" + classify(st, "", got), "the initialiser of a String field denotes a different UTF-16 sequence", {"units": want[:40], "literal": fm.group(1)[:200], "denotes": got[:40]})


def javac_oracle(ctx, cases, lits):
    def javac_quirk(s):
        # JDK 17's UnicodeReader peeks the code unit after a high-surrogate escape and loses its backslash parity when that unit is a
        # backslash (probe: "\\udbf3\\\\\\\\\\\\\\ud9b6" is rejected, "x\\\\\\\\\\\\\\ud9b6" accepted). That is javac deviating from JLS 3.3, not androguard: such
        # strings are decided by the JLS decoder only.
        for a, b in zip(s, s[1:]):
            if 0xD800 <= ord(a) < 0xDC00 and b == "\\":
                return True
        return False

    idx = []
    for i, l in enumerate(lits):
        if l is None:
            continue
        if javac_quirk(cases[i]):
            ctx.count("excluded_from_javac_high_surrogate_then_backslash")
            continue
        idx.append(i)
    with J.JavaRun() as jr:
        names = []
        chunks = [idx[i:i + PER_CLASS] for i in range(0, len(idx), PER_CLASS)]
        for ci, chunk in enumerate(chunks):
            body = ["public class S%d {" % ci, " static final String[] A = {"]
            for i in chunk:
                body.append(lits[i] + ",")
            body.append(" };")
            body.append(" public static void main(String[] a) { StringBuilder sb = new StringBuilder(); for (String s : A) { for (int i = 0; i < s.length(); i++) { if (i > 0) sb.append(','); sb.append((int) s.charAt(i)); } sb.append('\\n'); } System.out.print(sb); }")
            body.append("}")
            # note: literals must each be on their own line so a raw newline mutant breaks compilation of that class only
            jr.write("S%d.java" % ci, "\n".join(body) + "\n")
            names.append("S%d.java" % ci)
        rc, diag = jr.javac(names, timeout=1200)
        ctx.count("javac_classes", len(names))
        if rc != 0:
            ctx.violation("javac-rejects", "javac rejects literals produced by writer.string", {"diag": diag[:2000]})
            return
        for ci, chunk in enumerate(chunks):
            rc, out, err = jr.java("S%d" % ci, timeout=600)
            if rc != 0:
                ctx.inconclusive("java S%d failed: %s" % (ci, err[:300]))
                return
            lines = out.split("\n")
            if lines and lines[-1] == "":
                lines.pop()
            if len(lines) != len(chunk):
                ctx.inconclusive("java S%d printed %d lines for %d literals" % (ci, len(lines), len(chunk)))
                return
            for i, line in zip(chunk, lines):
                got = [int(x) for x in line.split(",")] if line else []
                want = J.utf16_units(cases[i])
                ctx.ev()
                ctx.count("jvm_literals_compared")
                if got != want:
                    ctx.violation("jvm-" + classify(cases[i], lits[i], got), "javac+JVM read the literal as a different UTF-16 sequence",
                                  {"units": want[:40], "literal": lits[i][:200], "jvm": got[:40]})
    ctx.require_counter("jvm_literals_compared", 65536)
