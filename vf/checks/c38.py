"""C38 cleaned file names are portable: contract on the real misc.clean_file_name under random names in sandbox directories
pre-populated with colliding files; an audit hook shows the function itself creates nothing."""
import os
import shutil
import sys
import tempfile

from vf.harness import exc_str

RESERVED = set('<>:"/\\|?*') | {chr(i) for i in range(32)}


def gen_name(rng, long_bias):
    r = rng.random()
    alpha_sets = [
        "abcXYZ019_-",
        "abc .",
        "a<>:\"\\|?*b",
        "".join(chr(i) for i in range(1, 32)) + "ab",
        "äöüßéλж中文😀‮ ",
        " .",
    ]

    def word(n):
        s = rng.choice(alpha_sets) if rng.random() < 0.7 else "".join(alpha_sets)
        return "".join(rng.choice(s) for _ in range(n))

    if long_bias and rng.random() < 0.5:
        n = rng.choice([225, 228, 229, 230, 231, 232, 233, 240, 255, 300, 600]) + rng.randint(-2, 2)
    else:
        n = rng.choice([0, 1, 2, 3, 5, 8, 13, 40, 100])
    if r < 0.35:
        name = word(n)
    elif r < 0.8:
        extn = rng.choice([0, 1, 3, 3, 4, 10, 100, 228, 229, 230, 231, 300])
        base = word(max(0, n - extn - 1))
        name = base + "." + word(extn)
    elif r < 0.9:
        name = rng.choice(["CON", "PRN", "AUX", "NUL", "COM1", "LPT9", "CONx", "con"]) + rng.choice(["", ".txt", " ", "."])
    else:
        name = word(n) + rng.choice([" ", ".", "..", " .", ". ", "\t"])
    # place a trailing space/dot exactly at the cut position sometimes
    if len(name) > 231 and rng.random() < 0.5:
        k = rng.choice([228, 229, 230])
        name = name[:k] + rng.choice(" .") + name[k + 1:]
    return name.replace("\x00", "_")


def check_result(name, res, d, unique, existing_lower=None):
    """-> list of mechanisms violated"""
    bad = []
    head, base = os.path.split(res)
    if head != d:
        bad.append("left-directory")
    if any(c in RESERVED for c in base):
        bad.append("reserved-char-left")
    if base.endswith(" ") or base.endswith("."):
        bad.append("trailing-space-or-dot")
    if len(base) > 230:
        bad.append("too-long")
    if unique and os.path.isfile(res):
        bad.append("not-unique")
    return bad


def run(ctx):
    from androguard import misc
    ctx.rule = ("random file names (ASCII, reserved chars, control chars, unicode, spaces/dots, device names; lengths 0..600 biased to 225..233; extensions 0..300) "
                "joined to a sandbox directory holding colliding files; clean_file_name(unique on/off). distinct non-trivial = distinct "
                "(length class, has-extension, ext-length class, has reserved, trailing class, collision count, unique)")
    ctx.assumptions = ["control characters = U+0000..U+001F (the Windows naming rule the function cites); NUL is not generated (os.path rejects it)",
                       "length limit applies to the final path component"]
    rng = ctx.rng("c38")
    created = []

    def hook(event, args):
        if hook.on and event in ("open", "os.mkdir", "os.rename", "os.symlink", "os.link"):
            if event == "open":
                mode = args[1]
                flags = args[2] if len(args) > 2 else 0
                if (isinstance(mode, str) and any(c in mode for c in "wax+")) or (isinstance(flags, int) and flags & (os.O_WRONLY | os.O_RDWR | os.O_CREAT)):
                    created.append((event, str(args[0])))
            else:
                created.append((event, str(args[0])))
    hook.on = False
    sys.addaudithook(hook)

    root = tempfile.mkdtemp(prefix="vf_c38_")
    drng = ctx.rng("c38-directory-names")
    try:
        n = 6000 if ctx.quick else 150000
        dcount = 0
        d = None
        for i in range(n):
            if i % 200 == 0:
                if d:
                    shutil.rmtree(d, ignore_errors=True)
                dcount += 1
                # the directory part is the caller's: names with glob / regexp / format metacharacters, blanks and non-ASCII letters are ordinary directory names
                dn = drng.choice(["d%d", "d%d", "out[1]-%d", "apk [v2] %d", "dump[a-z]x%d", "st*r?%d", "\u00e9t\u00e9 %d", "a{b}%d", "100%%-%d", "(x)+%d$", "[%d", "!%d]"]) % dcount
                if any(ch in dn for ch in "[]*?{}()%$!"):
                    ctx.count("directories_with_pattern_metacharacters")
                d = os.path.join(root, dn)
                os.mkdir(d)
            name = gen_name(rng, True)
            if "/" in name:
                # keep the directory part fixed: the property quantifies over the final component; '/' inside the name would be a directory separator
                name = name.replace("/", "\\") if rng.random() < 0.5 else name.replace("/", "_")
            unique = rng.random() < 0.7
            # pre-populate collisions: compute what the function would produce without uniqueness, create it and _0.._k
            ncoll = 0
            if unique and rng.random() < 0.6:
                try:
                    base0 = misc.clean_file_name(os.path.join(d, name), unique=False)
                except Exception:
                    base0 = None
                if base0 and os.path.dirname(base0) == d and len(os.path.basename(base0)) < 250:
                    ncoll = rng.choice([1, 1, 2, 3, 11])
                    b = os.path.basename(base0)
                    cands = [b]
                    for k in range(ncoll - 1):
                        if "." in b:
                            f, ext = b.rsplit(".", 1)
                            cands.append("%s_%d.%s" % (f, k, ext))
                        else:
                            cands.append("%s_%d" % (b, k))
                    for c in cands:
                        try:
                            with open(os.path.join(d, c), "w"):
                                pass
                        except OSError:
                            pass
            ctx.ev()
            ctx.count("clean_file_name")
            del created[:]
            hook.on = True
            # how the caller names the file: absolute path, or relative to the working directory (bare name / ./name)
            style = rng.choice(["abs", "abs", "bare", "dot"])
            if ncoll == 0 and rng.random() < 0.08:
                style = "root"     # a file directly below the root directory: the only separator is the leading one (nothing is created there)
                ctx.count("calls_with_a_name_directly_below_the_root_directory")
            arg = os.path.join(d, name) if style == "abs" else ("/" + name if style == "root" else name if style == "bare" else "./" + name)
            old_cwd = os.getcwd()
            try:
                if style not in ("abs", "root"):
                    os.chdir(d)
                    ctx.count("calls_with_a_name_relative_to_the_working_directory")
                elif style == "root":
                    os.chdir(d)
                res = misc.clean_file_name(arg, unique=unique)
                if style not in ("abs", "root"):
                    res = os.path.join(d, res[2:] if res.startswith("./") else res)       # what the relative result denotes
            except Exception as e:
                hook.on = False
                os.chdir(old_cwd)
                ctx.violation("raises", "clean_file_name raises", {"name": name, "unique": unique, "style": style, "exc": exc_str(e)})
                continue
            finally:
                os.chdir(old_cwd)
            hook.on = False
            if created:
                ctx.violation("creates-files", "clean_file_name itself created files", {"name": name, "events": created[:5]})
            bad = check_result(name, res, "/" if style == "root" else d, unique)
            base = os.path.basename(res)
            has_ext = "." in name
            extlen = len(name.rsplit(".", 1)[1]) if has_ext else 0
            for m in bad:
                mech = m
                if m == "too-long":
                    mech = "too-long-extension>=230" if extlen >= 229 else ("too-long-unique-suffix" if (unique and ncoll) else "too-long")
                elif m == "trailing-space-or-dot":
                    mech = "trailing-exposed-by-truncation" if len(name) > 230 else ("trailing-after-device-name" if name[:3].upper() in ("CON", "PRN", "AUX", "NUL", "COM", "LPT") else "trailing-space-or-dot")
                ctx.violation(mech, "cleaned name breaks the portability rule '%s'" % m,
                              {"name": name, "len": len(name), "unique": unique, "collisions": ncoll, "result_basename": base, "result_len": len(base)})
            lc = 0 if len(name) < 200 else 1 if len(name) <= 230 else 2
            ec = 0 if extlen == 0 else 1 if extlen < 200 else 2
            ctx.sig(lc, has_ext, ec, any(c in RESERVED for c in name), name[-1:] in (" ", "."), min(ncoll, 3), unique)
            if i < 3:
                ctx.sample({"name": name, "unique": unique, "collisions": ncoll, "result": base})
    finally:
        hook.on = False
        shutil.rmtree(root, ignore_errors=True)
    ctx.require_counter("clean_file_name", 1000)
    ctx.require_counter("directories_with_pattern_metacharacters", 5)
