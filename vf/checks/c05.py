"""C05 the parsed DEX object model matches the file's declared structure (generated class models -> DEX -> androguard)."""
import re

from vf.gen import classes as G
from vf.harness import exc_str
from vf.model import dalvik as D
from vf.model import dexw as W

MOD = "vf.checks.c05"


def nospace(s):
    return s.replace(" ", "")


def model_dump(m, w):
    out = []
    for c in w.class_order:
        def fkey(f):
            return w.ref_index(f.ref)
        sf = sorted(c.static_fields, key=fkey)
        inf = sorted(c.instance_fields, key=fkey)
        dm = sorted(c.direct_methods, key=lambda x: w.ref_index(x.ref))
        vm = sorted(c.virtual_methods, key=lambda x: w.ref_index(x.ref))

        def fd(f):
            return [f.cls, f.name, f.type, f.access]

        def md(mt):
            r = [mt.cls, mt.name, "(%s)%s" % ("".join(mt.params), mt.ret), mt.access, mt.code is not None]
            if mt.code:
                units = w.code_units[(mt.cls, mt.name, mt.ret, mt.params)][1]
                r += [mt.code.registers, mt.code.ins, mt.code.outs, D.units_to_bytes(units).hex()]
            return r
        out.append({"name": c.name, "super": c.super, "interfaces": list(c.interfaces), "access": c.access, "source": c.source,
                    "static_fields": [fd(f) for f in sf], "instance_fields": [fd(f) for f in inf],
                    "direct_methods": [md(x) for x in dm], "virtual_methods": [md(x) for x in vm]})
    return out


def real_dump(dx):
    out = []
    for c in dx.get_classes():
        cd = c.get_class_data()
        sidx = c.get_source_file_idx()

        def fd(f):
            return [f.get_class_name(), f.get_name(), f.get_descriptor(), f.get_access_flags()]

        def md(mt):
            code = mt.get_code()
            r = [mt.get_class_name(), mt.get_name(), nospace(mt.get_descriptor()), mt.get_access_flags(), code is not None]
            if code is not None:
                r += [code.get_registers_size(), code.get_ins_size(), code.get_outs_size(), bytes(code.get_bc().get_insn()).hex()]
            return r
        out.append({"name": c.get_name(), "super": c.get_superclassname() if c.get_superclass_idx() != W.NO_INDEX else None,
                    "interfaces": list(c.get_interfaces()), "access": c.get_access_flags(),
                    "source": dx.get_cm_string(sidx) if sidx != W.NO_INDEX else None,
                    "static_fields": [fd(f) for f in (cd.get_static_fields() if cd else [])],
                    "instance_fields": [fd(f) for f in (cd.get_instance_fields() if cd else [])],
                    "direct_methods": [md(x) for x in (cd.get_direct_methods() if cd else [])],
                    "virtual_methods": [md(x) for x in (cd.get_virtual_methods() if cd else [])]})
    return out


def first_diff(a, b, path=""):
    if type(a) != type(b):
        return path, a, b
    if isinstance(a, dict):
        for k in a:
            if k not in b:
                return path + "/" + k, a[k], None
            d = first_diff(a[k], b[k], path + "/" + k)
            if d:
                return d
        return None
    if isinstance(a, list):
        if len(a) != len(b):
            return path + "/len", len(a), len(b)
        for i, (x, y) in enumerate(zip(a, b)):
            d = first_diff(x, y, "%s[%d]" % (path, i))
            if d:
                return d
        return None
    return None if a == b else (path, a, b)


def spaced_desc(params, ret):
    return "(%s)%s" % (" ".join(params), ret)


def check_lookups(ctx, dx, m, w, hexdata):
    """name/descriptor based lookups return exactly the matching items"""
    all_methods = [(mt.cls, mt.name, mt.params, mt.ret) for c in m.classes for mt in c.direct_methods + c.virtual_methods]
    all_fields = [(f.cls, f.name, f.type) for c in m.classes for f in c.static_fields + c.instance_fields]
    cls_names = [c.name for c in m.classes]
    got = sorted(dx.get_classes_names())
    if got != sorted(cls_names):
        ctx.violation("lookup-classes-names", "get_classes_names differs from the declared classes", {"got": got, "want": sorted(cls_names), "dex": hexdata})
    for cn in cls_names + ["Labsent/X;"]:
        ctx.count("lookups")
        r = dx.get_class(cn)
        if (r is None) != (cn not in cls_names) or (r is not None and r.get_name() != cn):
            ctx.violation("lookup-get_class", "get_class returned the wrong class", {"name": cn, "dex": hexdata})
        want = sorted((x[1], spaced_desc(x[2], x[3])) for x in all_methods if x[0] == cn)
        got = sorted((e.get_name(), e.get_descriptor()) for e in dx.get_encoded_methods_class(cn))
        if got != want:
            ctx.violation("lookup-methods-class", "get_encoded_methods_class differs", {"class": cn, "got": got, "want": want, "dex": hexdata})
        want = sorted((x[1], x[2]) for x in all_fields if x[0] == cn)
        got = sorted((e.get_name(), e.get_descriptor()) for e in dx.get_encoded_fields_class(cn))
        if got != want:
            ctx.violation("lookup-fields-class", "get_encoded_fields_class differs", {"class": cn, "got": got, "want": want, "dex": hexdata})
    mset = set(all_methods)
    fset = set(all_fields)
    # exact and near-miss keys for methods
    keys = set()
    for (cn, nm, ps, rt) in all_methods:
        keys.add((cn, nm, ps, rt))
        for cn2 in cls_names:
            keys.add((cn2, nm, ps, rt))
        for (_, nm2, ps2, rt2) in all_methods[:6]:
            keys.add((cn, nm, ps2, rt2))
            keys.add((cn, nm2, ps, rt))
    for (cn, nm, ps, rt) in sorted(keys):
        ctx.count("lookups")
        e = dx.get_encoded_method_descriptor(cn, nm, spaced_desc(ps, rt))
        ok = (e is not None) == ((cn, nm, ps, rt) in mset)
        if e is not None and (e.get_class_name(), e.get_name(), nospace(e.get_descriptor())) != (cn, nm, "(%s)%s" % ("".join(ps), rt)):
            ok = False
        if not ok:
            ctx.violation("lookup-method-descriptor", "get_encoded_method_descriptor returned a non-matching item or missed a declared one",
                          {"key": [cn, nm, spaced_desc(ps, rt)], "got": None if e is None else [e.get_class_name(), e.get_name(), e.get_descriptor()], "dex": hexdata})
        e2 = dx.get_encoded_methods_class_method(cn, nm)
        want_any = any(x[0] == cn and x[1] == nm for x in all_methods)
        if (e2 is not None) != want_any or (e2 is not None and (e2.get_class_name(), e2.get_name()) != (cn, nm)):
            ctx.violation("lookup-class-method", "get_encoded_methods_class_method wrong", {"key": [cn, nm], "dex": hexdata})
    fkeys = set()
    for (cn, nm, ty) in all_fields:
        fkeys.add((cn, nm, ty))
        for cn2 in cls_names:
            fkeys.add((cn2, nm, ty))
        for (_, nm2, ty2) in all_fields[:6]:
            fkeys.add((cn, nm, ty2))
            fkeys.add((cn, nm2, ty))
        # concatenation-collision probes: move characters between the key parts
        if len(nm) > 1:
            fkeys.add((cn, nm[:-1], nm[-1] + ty))
        if ty[0] == "L" and len(ty) > 3:
            fkeys.add((cn, nm + "L", ty[1:]))
        if len(cn) > 3:
            fkeys.add((cn[:-1], cn[-1] + nm, ty))
    for (cn, nm, ty) in sorted(fkeys):
        ctx.count("lookups")
        e = dx.get_encoded_field_descriptor(cn, nm, ty)
        ok = (e is not None) == ((cn, nm, ty) in fset)
        if e is not None and (e.get_class_name(), e.get_name(), e.get_descriptor()) != (cn, nm, ty):
            ok = False
        if not ok:
            ctx.violation("lookup-field-descriptor-key-collision" if e is not None else "lookup-field-descriptor",
                          "get_encoded_field_descriptor returned a non-matching item or missed a declared one",
                          {"key": [cn, nm, ty], "got": None if e is None else [e.get_class_name(), e.get_name(), e.get_descriptor()], "dex": hexdata})
    # id-item lookups (every method/field *reference* of the file, defined or not)
    ref_methods = [(c_, n_, "(%s)%s" % ("".join(p_), r_)) for (c_, n_, r_, p_) in w.method_list]
    ref_fields = list(w.field_list)
    for getter, items, kind in ((dx.get_methods, ref_methods, "method"), (dx.get_fields, ref_fields, "field")):
        ctx.count("lookups")
        try:
            if kind == "method":
                got = [(i.get_class_name(), i.get_name(), nospace(i.get_descriptor())) for i in getter()]
            else:
                got = [(i.get_class_name(), i.get_name(), i.get_descriptor()) for i in getter()]
        except Exception as e:
            ctx.violation("lookup-id-items-raise", "listing the %s id items raises" % kind, {"exc": exc_str(e), "dex": hexdata})
            continue
        if got != [tuple(x) for x in items]:
            ctx.violation("lookup-%s-id-items" % kind, "the %s id items differ from the file's %s_ids section" % (kind, kind), {"got": got[:10], "want": items[:10], "dex": hexdata})
    for nm in sorted({x[1] for x in ref_methods})[:6]:
        ctx.count("lookups")
        try:
            got = sorted((i.get_class_name(), i.get_name(), nospace(i.get_descriptor())) for i in dx.get_method(re.escape(nm) + "$"))
        except Exception as e:
            ctx.violation("lookup-get_method-raises", "DEX.get_method(name) raises", {"name": nm, "exc": exc_str(e)})
            break
        want = sorted(x for x in ref_methods if x[1] == nm)
        if got != want:
            ctx.violation("lookup-get_method", "DEX.get_method(name$) differs from the method references of that name", {"name": nm, "got": got, "want": want, "dex": hexdata})
    for nm in sorted({x[1] for x in ref_fields})[:6]:
        ctx.count("lookups")
        try:
            got = sorted((i.get_class_name(), i.get_name(), i.get_descriptor()) for i in dx.get_field(re.escape(nm) + "$"))
        except Exception as e:
            ctx.violation("lookup-get_field-raises", "DEX.get_field(name) raises", {"name": nm, "exc": exc_str(e)})
            break
        want = sorted(x for x in ref_fields if x[1] == nm)
        if got != [tuple(x) for x in want]:
            ctx.violation("lookup-get_field", "DEX.get_field(name$) differs from the field references of that name", {"name": nm, "got": got, "want": want, "dex": hexdata})
    # by index
    for (cn, nm, ps, rt) in all_methods[:8]:
        ctx.count("lookups")
        idx = w.midx[(cn, nm, rt, tuple(ps))]
        e = dx.get_encoded_method_by_idx(idx)
        if e is None or (e.get_class_name(), e.get_name(), nospace(e.get_descriptor())) != (cn, nm, "(%s)%s" % ("".join(ps), rt)):
            ctx.violation("lookup-method-by-idx", "get_encoded_method_by_idx returns another method than the one with that index", {"idx": idx, "want": [cn, nm], "dex": hexdata})
    if dx.get_len_classes() != len(cls_names) or dx.get_len_strings() != len(w.string_list) or dx.get_len_methods() != len(w.method_list) or dx.get_len_fields() != len(w.field_list):
        ctx.violation("lookup-lengths", "get_len_* differ from the section sizes", {"dex": hexdata})
    # regex prefix lookups by exact name
    for nm in sorted({x[1] for x in all_methods})[:8]:
        ctx.count("lookups")
        got = sorted((e.get_class_name(), e.get_name(), nospace(e.get_descriptor())) for e in dx.get_encoded_method(re.escape(nm) + "$"))
        want = sorted((x[0], x[1], "(%s)%s" % ("".join(x[2]), x[3])) for x in all_methods if x[1] == nm)
        if got != want:
            ctx.violation("lookup-method-regex", "get_encoded_method(name$) differs from the declared methods of that name", {"name": nm, "got": got, "want": want, "dex": hexdata})
    for nm in sorted({x[1] for x in all_fields})[:8]:
        ctx.count("lookups")
        got = sorted((e.get_class_name(), e.get_name(), e.get_descriptor()) for e in dx.get_encoded_field(re.escape(nm) + "$"))
        want = sorted(x for x in all_fields if x[1] == nm)
        if got != [tuple(x) for x in want]:
            ctx.violation("lookup-field-regex", "get_encoded_field(name$) differs", {"name": nm, "got": got, "want": want, "dex": hexdata})
    # the name argument is documented as a python regexp matched with re.match (prefix semantics): unanchored plain names, proper prefixes,
    # wildcard patterns. Oracle: re.match of the same pattern on the model's names.
    rng = ctx.rng("c05-patterns", len(all_methods), len(all_fields), len(hexdata))
    mnames = sorted({x[1] for x in all_methods} | {x[1] for x in ref_methods})
    fnames = sorted({x[1] for x in all_fields} | {x[1] for x in ref_fields})
    pats = set()
    for nm in rng.sample(mnames + fnames, min(6, len(mnames + fnames))):
        pats.add(re.escape(nm))                       # unanchored: also matches longer names starting with nm
        pats.add(re.escape(nm[:1]))                   # proper prefix
        pats.add(".*" + re.escape(nm[-1:]) + "$")     # suffix
        if nm.isidentifier():
            pats.add(nm)                              # a plain identifier is a regexp too
            pats.add(nm[: max(1, len(nm) - 1)])
    for pat in sorted(pats):
        try:
            prog = re.compile(pat)
        except re.error:
            continue
        ctx.count("lookups_by_pattern")
        for what, call, pool, desc in (("get_encoded_method", dx.get_encoded_method, all_methods, True), ("get_encoded_field", dx.get_encoded_field, all_fields, False),
                                       ("get_method", dx.get_method, None, True), ("get_field", dx.get_field, None, False)):
            try:
                res = call(pat)
            except Exception as e:
                ctx.violation("lookup-by-pattern-raises", "a regexp name lookup raises", {"call": what, "pattern": pat, "exc": exc_str(e), "dex": hexdata})
                continue
            if desc:
                got = sorted((e.get_class_name(), e.get_name(), nospace(e.get_descriptor())) for e in res)
            else:
                got = sorted((e.get_class_name(), e.get_name(), e.get_descriptor()) for e in res)
            if pool is all_methods:
                want = sorted((x[0], x[1], "(%s)%s" % ("".join(x[2]), x[3])) for x in all_methods if prog.match(x[1]))
            elif pool is all_fields:
                want = sorted(tuple(x) for x in all_fields if prog.match(x[1]))
            elif desc:
                want = sorted(tuple(x) for x in ref_methods if prog.match(x[1]))
            else:
                want = sorted(tuple(x) for x in ref_fields if prog.match(x[1]))
            if got != want:
                ctx.violation("lookup-by-pattern-%s" % what, "%s(pattern) does not return exactly the items whose name re.match()es the pattern" % what,
                              {"pattern": pat, "got": got[:12], "want": want[:12], "dex": hexdata})


def shard(ctx, arg):
    idx, count = arg
    from androguard.core import dex
    rng = ctx.rng("c05", idx)
    for k in range(count):
        padcase = (ctx.quick and idx in (1, 2) and k == 1) or (not ctx.quick and k % 97 == 1)
        m = G.gen_model(rng, nclasses=5) if padcase else G.gen_model(rng)
        if rng.random() < 0.5:
            G.enrich(rng, m)  # annotations, static values, debug info: more sections, index diffs shift
        if rng.random() < 0.3:
            m.version = rng.choice([b"035", b"037", b"038", b"039"])
        if padcase:
            # more than 32768 type ids: a padding class whose static fields have 33000 distinct types sorting in front pushes the type indices of the
            # program's own classes, interfaces and parameter lists (type_list entries are UNSIGNED 16 bit) beyond 0x7FFF
            pad = m.add_class("L$$/Pad;", W.ACC_PUBLIC | W.ACC_ABSTRACT)
            for i in range(33000 if idx == 1 or not ctx.quick else 400):
                pad.add_field("t%05d" % i, "L$$/T%05d;" % i, W.ACC_STATIC | W.ACC_PUBLIC)
            ctx.count("files_with_padding_types_in_front")
        opts = {}
        if rng.random() < 0.2:
            prng = __import__("random").Random(rng.getrandbits(32))
            opts["class_data_pad"] = lambda: prng.choice([0, 0, 0, 1, 2, 4])     # valid non-minimal uleb128 numbers, up to the full five bytes
            ctx.count("files_with_padded_class_data_numbers")
        data, w = W.write_dex(m, opts, want_writer=True)
        probs = W.self_check(data)
        if probs:
            ctx.inconclusive("writer self-check failed: %s" % probs)
            continue
        ctx.ev()
        ctx.count("DEX_parsed")
        hexdata = data.hex() if len(data) < 3000 else data[:3000].hex() + "..."
        try:
            dx = dex.DEX(data)
            got = real_dump(dx)
        except Exception as e:
            ctx.violation("parse-raises", "DEX() or the object model raises on a well-formed file", {"exc": exc_str(e), "dex": hexdata})
            continue
        want = model_dump(m, w)
        d = first_diff(want, got)
        if d:
            path = re.sub(r"\[\d+\]", "[]", d[0])
            ctx.violation("model-" + path, "parsed object model differs from the declared structure", {"path": d[0], "want": d[1], "got": d[2], "dex": hexdata})
        try:
            check_lookups(ctx, dx, m, w, hexdata)
        except Exception as e:
            ctx.violation("lookup-raises", "a lookup raises", {"exc": exc_str(e), "dex": hexdata})
        # signature: structural shape
        nm = sum(len(c.direct_methods) + len(c.virtual_methods) for c in m.classes)
        nf = sum(len(c.static_fields) + len(c.instance_fields) for c in m.classes)
        names = [mt.name for c in m.classes for mt in c.direct_methods + c.virtual_methods] + [f.name for c in m.classes for f in c.static_fields + c.instance_fields]
        shared = len(names) != len(set(names))
        codeless = any(mt.code is None for c in m.classes for mt in c.direct_methods + c.virtual_methods)
        wide = any(p in ("J", "D") for c in m.classes for mt in c.direct_methods + c.virtual_methods for p in mt.params)
        if len(m.classes) >= 2 and nm + nf >= 3:
            ctx.sig(len(m.classes), min(nm, 8), min(nf, 8), shared, codeless, wide, any(c.interfaces for c in m.classes))
        if idx == 0 and k < 2:
            ctx.sample({"classes": [c["name"] for c in want], "first_class": want[0] if want else None, "dex_bytes": len(data)})


def run(ctx):
    ctx.rule = ("random class models (0..6 classes, identifiers over an adversarial alphabet incl. 'L', '$', non-ASCII, shared member names, primitive/array/class "
                "types, wide params, abstract/native methods, interfaces, DEX 035-039) written by vf/model/dexw.py; canonical dump + every lookup incl. near-miss keys. "
                "distinct non-trivial = distinct (class count, #methods, #fields, shared names, code-less, wide, interfaces) with >=2 classes")
    ctx.assumptions = ["vf/model/dexw.py implements the DEX format specification (self-checked: sorted/unique ids, offsets, checksums)",
                       "method descriptors are compared with spaces removed (androguard prints '(I J)V'); lookups use androguard's spaced form"]
    n = 300 if ctx.quick else 200000
    per = n // 16 + 1
    ctx.run_shards(MOD, "shard", [[i, per] for i in range(16)], timeout=3000)
    ctx.require_counter("DEX_parsed", 100)
    ctx.require_counter("lookups", 1000)
    ctx.require_counter("files_with_padding_types_in_front", 1)
    ctx.min_distinct = 10
