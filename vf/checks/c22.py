"""C22 Decompilation output is deterministic.

Workload: every method of the shipped DEX files (tests/data/APK/*.dex and the classes*.dex inside a few shipped APKs) and of generated DEX files
(vf.gen.intprog), decompiled in several FRESH python processes that differ only in things the property says must not matter:
PYTHONHASHSEED (0, 1, 2, random), allocation layout (seeded junk allocations/frees before and between methods, gc on/off), the order in
which classes/methods are decompiled, and the hash values of the decompiler's identity-hashed objects (vf.monitor.hashperturb: any hash
consistent with == is a legal execution).  Each child returns {method key: sha256(source)}; the parent compares across children.

Oracle: all children agree on every key.  A difference is a violation.  Its mechanism is the *iteration site* when it can be isolated:
an isolation child re-decompiles the differing methods in-process under several perturbation seeds, once unchanged and once with a
single site replaced by a deterministic equivalent (monkeypatched in the child only); the site whose fix alone makes the output stable
names the mechanism.  Otherwise: nondeterministic-output-address-dependent / -hashseed-dependent / -only-under-hash-perturbation.

Domain decisions:
 * A method for which the decompiler raises contributes the exception type as its "source" (the same error every time is deterministic).
 * Differences that appear only under hash perturbation are violations ("regardless of memory layout"); the witness says so.
 * quick tier: tests/data/APK/classes.dex (all ~2.6k methods) + the small DEX files + one generated DEX, 6 children;
   thorough: + DEX files inside six shipped APKs + two larger generated DEX files, 12 children.
"""
import gc
import hashlib
import os
import random
import time
import zipfile

from vf.harness import REPO, exc_str

MOD = "vf.checks.c22"
QUICK_STRIDE = int(os.environ.get("VERIF_C22_STRIDE", "1"))
APK_DIR = os.path.join(REPO, "tests", "data", "APK")
SMALL_DEX = ["AnalysisTest.dex", "ExceptionHandling.dex", "FieldsTest.dex", "FillArrays.dex", "InterfaceCls.dex", "StringTests.dex", "Test.dex"]
KNOWN_VARYING_CLASSES = ["Landroid/support/v4/content/LocalBroadcastManager;", "Landroid/support/v4/view/ViewPager;", "Landroid/support/v4/view/PagerTitleStrip;"]
THOROUGH_APKS = ["TestActivity.apk", "com.politedroid_4.apk", "a2dp.Vol_137.apk", "com.teleca.jamendo_35.apk", "TC-debug.apk", "multidex.apk"]


# ---- inputs ---------------------------------------------------------------------------------------------------------------------------
def generated_dex(seed, n):
    """a DEX of generated structured int/long methods (loops, switches, short-circuit conditions)"""
    from vf.checks import c21
    from vf.gen import intprog as G
    rng = random.Random("c22-gen-%s" % seed)
    ms = G.random_methods(rng, "P5", n) + G.random_methods(rng, "P3", n // 2) + G.random_methods(rng, "P4", n // 2)
    cases = c21.to_cases(ms, "G", rng, {})
    return c21.build_dex(cases)


def crafted_flags_dex():
    """classes, fields, constructors and methods carrying SEVERAL access flags each (the printed modifier list has an order): every pair / triple of
    the flags that are legal for the kind"""
    import itertools
    from vf.model import dexw as W
    m = W.DexModel()
    vis = [W.ACC_PUBLIC, W.ACC_PRIVATE, W.ACC_PROTECTED, 0]
    k = 0
    for cf in (W.ACC_PUBLIC, W.ACC_PUBLIC | W.ACC_FINAL, W.ACC_PUBLIC | W.ACC_ABSTRACT, W.ACC_FINAL | W.ACC_SYNTHETIC, W.ACC_PUBLIC | W.ACC_FINAL | W.ACC_SYNTHETIC | W.ACC_ENUM):
        c = m.add_class("Lfl/C%d;" % k, cf)
        k += 1
        extra_m = [W.ACC_FINAL, W.ACC_SYNCHRONIZED, W.ACC_VARARGS, W.ACC_SYNTHETIC, W.ACC_STRICT, W.ACC_BRIDGE, W.ACC_DECLARED_SYNCHRONIZED]
        j = 0
        for v in vis:
            for r in (1, 2, 3):
                for combo in itertools.combinations(extra_m, r):
                    fl = v
                    for x in combo:
                        fl |= x
                    # constructors: distinct parameter lists; methods: static and virtual
                    params = tuple(["I"] * (j % 4) + ["J"] * (j // 4 % 3) + ["Ljava/lang/String;"] * (j // 12 % 3) + ["[I"] * (j // 36))
                    if (fl & (W.ACC_FINAL | W.ACC_SYNCHRONIZED | W.ACC_BRIDGE | W.ACC_STRICT)) == 0:
                        nreg = 1 + sum(2 if p == "J" else 1 for p in params)
                        c.add_method("<init>", "V", params, fl | W.ACC_CONSTRUCTOR,
                                     W.Code(nreg + 1, nreg, 1, [("invoke-direct", [1], W.Mth("Ljava/lang/Object;", "<init>", "V", ())), ("return-void",)]))
                    c.add_method("m%d" % j, "I", ("I",), fl | (W.ACC_STATIC if j % 2 else 0), W.Code(3, 2 - (j % 2), 0, [("const/4", 0, 1), ("return", 0)]))
                    j += 1
        extra_f = [W.ACC_STATIC, W.ACC_FINAL, W.ACC_VOLATILE, W.ACC_TRANSIENT, W.ACC_SYNTHETIC, W.ACC_ENUM]
        j = 0
        for v in vis:
            for r in (1, 2, 3):
                for combo in itertools.combinations(extra_f, r):
                    fl = v
                    for x in combo:
                        fl |= x
                    if fl & W.ACC_FINAL and fl & W.ACC_VOLATILE:
                        continue
                    c.add_field("f%d" % j, "I", fl)
                    j += 1
    return W.write_dex(m)


def load_inputs(spec):
    """spec: list of input names -> [(name, dex bytes)]"""
    out = []
    for name in spec:
        if name == "crafted:flags":
            out.append((name, crafted_flags_dex()))
        elif name.startswith("gen:"):
            _, seed, n = name.split(":")
            out.append((name, generated_dex(seed, int(n))))
        elif name.endswith(".apk"):
            with zipfile.ZipFile(os.path.join(APK_DIR, name)) as z:
                for zn in sorted(z.namelist()):
                    if zn.startswith("classes") and zn.endswith(".dex"):
                        out.append(("%s!%s" % (name, zn), z.read(zn)))
        else:
            with open(os.path.join(APK_DIR, name), "rb") as f:
                out.append((name, f.read()))
    return out


ANNOT_VARYING_CLASSES = ["Landroid/support/graphics/drawable/AnimationUtilsCompat;", "Landroid/support/graphics/drawable/AnimatorInflaterCompat;",
                         "Landroid/support/v4/app/BackStackRecord;", "Landroid/support/constraint/solver/widgets/Optimizer;",
                         "Landroid/support/v7/app/ActionBarDrawerToggleHoneycomb;"]


def class_filter(name, cls_names, quick):
    if name == "Annotation_classes.dex" and quick:
        # quick: the classes whose methods were order-dependent before the repairs + every 12th class
        keep = set(cls_names[::12]) | set(ANNOT_VARYING_CLASSES)
        return [c for c in cls_names if c in keep]
    if name == "classes.dex" and quick:
        keep = set(cls_names[::QUICK_STRIDE]) | set(KNOWN_VARYING_CLASSES)
        return [c for c in cls_names if c in keep]
    return cls_names


# ---- child ----------------------------------------------------------------------------------------------------------------------------
class Junk:
    """seeded allocation noise: shifts where the decompiler's objects land"""

    def __init__(self, seed):
        self.rng = random.Random("junk-%s" % seed)
        self.keep = []

    def churn(self):
        r = self.rng
        for _ in range(r.randint(0, 60)):
            k = r.random()
            if k < 0.4:
                self.keep.append([object() for _ in range(r.randint(1, 40))])
            elif k < 0.7:
                self.keep.append({i: object() for i in range(r.randint(1, 20))})
            else:
                self.keep.append(bytearray(r.randint(1, 4000)))
        r.shuffle(self.keep)
        del self.keep[: r.randint(0, len(self.keep))]


def digest(s):
    return hashlib.sha256(s.encode("utf-8", "surrogatepass")).hexdigest()[:24]


def decompile_method(em):
    try:
        return em.get_source() or ""
    except Exception as e:
        return "<<raises %s>>" % type(e).__name__


def decompile_method_twice(em, dx):
    """the same DvMethod object processed twice (DvMachine.process() / DvClass.process() called again does exactly this): the text of the
    SECOND run - 'which other code was decompiled earlier in the process' includes the method itself"""
    from androguard.decompiler.decompile import DvMethod
    try:
        z = DvMethod(dx.get_method(em))
        z.process()
        z.get_source()
        z.process()
        return z.get_source() or ""
    except Exception as e:
        return "<<raises %s>>" % type(e).__name__


def child(ctx, arg):
    """arg: inputs, quick, perturb (seed or None), junk (seed or None), shuffle (seed or None), gc (bool), label"""
    from vf.checks import c21
    from vf.monitor import hashperturb as HP
    HP.install_site_monitors()
    if arg.get("perturb") is not None:
        HP.install(arg["perturb"])
    for site in [x for x in os.environ.get("VERIF_C22_FIX", "").split(",") if x]:   # development aid: self-test of the check with sites made deterministic
        for s_ in (HP.SITES if site == "ALL" else [site]):
            HP.apply_fix(s_)
    nontrivial = []
    junk = Junk(arg["junk"]) if arg.get("junk") is not None else None
    if not arg.get("gc", True):
        gc.disable()
    if junk:
        junk.churn()
    hashes = {}
    nmeth = 0
    t0 = time.time()
    for name, data in load_inputs(arg["inputs"]):
        d, dx = c21.load_dad(data)
        classes = {c.get_name(): c for c in d.get_classes()}
        names = class_filter(name, sorted(classes), arg["quick"])
        if arg.get("shuffle") is not None:
            random.Random("order-%s" % arg["shuffle"]).shuffle(names)
        for cn in names:
            c = classes[cn]
            ms = list(c.get_methods())
            if arg.get("shuffle") is not None:
                random.Random("order-%s-%s" % (arg["shuffle"], cn)).shuffle(ms)
            for mi_, em in enumerate(ms):
                if junk:
                    junk.churn()
                if arg.get("ast") is not None and (mi_ + arg["ast"]) % 3 == 0 and len(ms) > 1:
                    # another API of the same decompiler is used in between: the AST of ANOTHER method of the class is requested first
                    other = ms[(mi_ * 7 + 1) % len(ms)]
                    try:
                        from androguard.decompiler.decompile import DvMethod
                        z_ = DvMethod(dx.get_method(other))
                        z_.process(doAST=True)
                        z_.get_ast()
                        ctx.count("ast_requests_between_source_requests")
                    except Exception:
                        pass
                key = "%s|%s->%s%s" % (name, em.get_class_name(), em.get_name(), em.get_descriptor().replace(" ", ""))
                before = sum(HP.STATE["sites"].values())
                hashes[key] = digest(decompile_method_twice(em, dx) if arg.get("twice") else decompile_method(em))
                if sum(HP.STATE["sites"].values()) != before:
                    nontrivial.append(key)
                nmeth += 1
            if arg.get("class_source", False) or len(data) < 20000 or name.startswith("gen:"):
                try:
                    if arg.get("twice"):
                        from androguard.decompiler.decompile import DvClass
                        z = DvClass(c, dx)
                        z.process()
                        z.get_source()
                        z.process()
                        src = z.get_source()
                    else:
                        src = c.get_source()
                except Exception as e:
                    src = "<<raises %s>>" % type(e).__name__
                hashes["%s|%s (class source)" % (name, cn)] = digest(src)
    ctx.count("methods_decompiled_in_children", nmeth)
    ctx.count("children_finished")
    ctx.maxi("child_wall_s", round(time.time() - t0, 1))
    if arg.get("perturb") is not None:
        ctx.count("perturbed_objects_hashed", HP.STATE["hashed_objects"])
    for k, v in HP.STATE["sites"].items():
        ctx.count("site " + k, v)
    ctx.extra["hashes"] = {arg["label"]: hashes}
    ctx.extra["nontrivial"] = {arg["label"]: nontrivial}


def isolate(ctx, arg):
    """arg: inputs, quick, targets: {input name: [class names]}, keys: [method keys], seeds. Re-decompile the differing methods in-process:
    unchanged and with one site fixed at a time, under several perturbation seeds. Result in ctx.extra['isolation']."""
    from vf.checks import c21
    from vf.monitor import hashperturb as HP
    want = set(arg["keys"])
    loaded = []
    for name, data in load_inputs(arg["inputs"]):
        if name not in arg["targets"]:
            continue
        d, dx = c21.load_dad(data)
        for c in d.get_classes():
            if c.get_name() in arg["targets"][name]:
                for em in c.get_methods():
                    key = "%s|%s->%s%s" % (name, em.get_class_name(), em.get_name(), em.get_descriptor().replace(" ", ""))
                    if key in want:
                        loaded.append((key, em))
    res = {}
    variants = {}
    for fix in [None] + list(HP.SITES) + ["ALL"]:
        HP.remove_all_fixes()
        try:
            if fix == "ALL":
                for s in HP.SITES:
                    HP.apply_fix(s)
            elif fix is not None:
                HP.apply_fix(fix)
        except Exception as e:
            ctx.inconclusive("site fix %s could not be applied: %s" % (fix, exc_str(e)))
            continue
        for key, em in loaded:
            outs = {}
            for s in arg["seeds"]:
                HP.install("iso-%s" % s)
                src = decompile_method(em)
                outs.setdefault(digest(src), src)
                ctx.count("isolation_decompilations")
            res.setdefault(key, {})[str(fix)] = len(outs)
            if fix is None:
                variants[key] = list(outs.values())[:2]
    HP.remove_all_fixes()
    HP.uninstall()
    ctx.extra["isolation"] = res
    ctx.extra["variants"] = variants


# ---- parent ---------------------------------------------------------------------------------------------------------------------------
def child_configs(quick):
    cfg = [
        {"label": "A hashseed=0 plain", "hashseed": "0"},
        {"label": "B hashseed=0 junk=1", "hashseed": "0", "junk": 1},
        {"label": "C hashseed=1 junk=2 shuffled gc-off", "hashseed": "1", "junk": 2, "shuffle": 1, "gc": False},
        {"label": "D hashseed=random junk=3", "hashseed": "random", "junk": 3},
        {"label": "E hashseed=2 perturb=1", "hashseed": "2", "perturb": 1},
        {"label": "F hashseed=0 perturb=2 shuffled", "hashseed": "0", "perturb": 2, "shuffle": 2},
        {"label": "T hashseed=0 every object processed twice", "hashseed": "0", "twice": True},
        {"label": "S hashseed=1 AST of another method requested in between", "hashseed": "1", "ast": 1},
    ]
    if not quick:
        cfg += [
            {"label": "G hashseed=0 plain (same as A)", "hashseed": "0"},
            {"label": "H hashseed=random junk=4 gc-off", "hashseed": "random", "junk": 4, "gc": False},
            {"label": "I hashseed=1 perturb=3", "hashseed": "1", "perturb": 3},
            {"label": "J hashseed=0 perturb=4 junk=5", "hashseed": "0", "perturb": 4, "junk": 5},
            {"label": "K hashseed=2 perturb=5 shuffled", "hashseed": "2", "perturb": 5, "shuffle": 3},
            {"label": "L hashseed=random perturb=6 gc-off", "hashseed": "random", "perturb": 6, "gc": False},
        ]
    return cfg


def classify_trigger(labels_by_hash, cfgs):
    """which kind of variation separates the children"""
    by_label = {c["label"]: c for c in cfgs}
    groups = list(labels_by_hash.values())
    once = [[l for l in g if not by_label[l].get("twice")] for g in groups]
    if len([g for g in once if g]) == 1:
        # all children that decompile each object once agree; only the child that runs process() twice on the same object differs
        return "second-process-of-the-same-object-differs"
    noast = [[l for l in g if by_label[l].get("ast") is None and not by_label[l].get("twice")] for g in groups]
    if len([g for g in noast if g]) == 1:
        # only the child that requests ASTs of other methods in between differs
        return "source-depends-on-an-earlier-AST-request-for-another-method"
    plain = [[l for l in g if by_label[l].get("perturb") is None] for g in groups]
    plain = [g for g in plain if g]
    if len(plain) >= 2:
        # unperturbed children already disagree
        seeds = [{by_label[l]["hashseed"] for l in g} for g in plain]
        same_seed_split = any(seeds[i] & seeds[j] for i in range(len(seeds)) for j in range(i + 1, len(seeds)))
        return "address-dependent" if same_seed_split else "hashseed-dependent"
    return "only-under-hash-perturbation"


def shared_decompiler(ctx):
    """ONE Analysis holding several DEX files served by ONE DecompilerDAD object (its get_source_method / the methods' get_source), asked for the
    methods file by file, in the reverse file order and interleaved: every method's text must be the one a decompiler of its own gives."""
    from androguard.core.analysis.analysis import Analysis
    from androguard.core.dex import DEX
    from androguard.decompiler.decompiler import DecompilerDAD
    from vf.checks import c21
    datas = load_inputs(["multidex.apk", "Test.dex", "FieldsTest.dex", "InterfaceCls.dex", "gen:7:6"])
    fresh = {}
    for name, data in datas:
        d, dx = c21.load_dad(data)
        for em in d.get_encoded_methods():
            fresh["%s|%s" % (name, em.full_name if hasattr(em, "full_name") else em.get_triple())] = decompile_method(em)
    for order in ("forward", "reverse", "interleaved"):
        dexes = [(name, DEX(data)) for name, data in datas]
        an = Analysis()
        for _, d in dexes:
            an.add(d)
        dec = DecompilerDAD(dexes[0][1], an)
        for _, d in dexes:
            d.set_decompiler(dec)
        an.create_xref()
        todo = [(name, em) for name, d in dexes for em in d.get_encoded_methods()]
        if order == "reverse":
            todo = [(name, em) for name, d in reversed(dexes) for em in d.get_encoded_methods()]
        elif order == "interleaved":
            random.Random("c22-shared").shuffle(todo)
        bad = []
        for name, em in todo:
            ctx.ev()
            ctx.count("methods_decompiled_by_a_decompiler_shared_between_dex_files")
            key = "%s|%s" % (name, em.full_name if hasattr(em, "full_name") else em.get_triple())
            got = decompile_method(em)
            if not got.startswith("<<raises"):
                ctx.count("methods_with_source_from_a_shared_decompiler")
            if got != fresh[key]:
                bad.append({"method": key, "shared_decompiler": got[:300], "own_decompiler": fresh[key][:300]})
        if bad:
            ctx.violation("text-depends-on-other-dex-served-by-the-same-decompiler", "a method's text differs when one decompiler object serves several DEX files of an Analysis",
                          {"request_order": order, "files": [n for n, _ in datas], "differing": len(bad), "witnesses": bad[:3]})


def run(ctx):
    from vf.monitor import hashperturb as HP
    ctx.rule = ("each method of the chosen DEX files decompiled in N fresh processes (different PYTHONHASHSEED, allocation noise, gc, order, "
                "hash perturbation of the decompiler's identity-hashed objects); oracle = equal sha256 of the source in all children. "
                "distinct non-trivial = methods during whose decompilation some child iterated a >=2-element set of identity-hashed decompiler "
                "objects at a monitored site (Interval.compute_end, Node.update_attribute_with, MergeNodes, var_to_declare); signature = method key")
    ctx.assumptions = ["hash perturbation is a legal execution: __eq__ stays identity, only the (unspecified) hash value changes",
                       "sha256 truncated to 96 bits identifies the source text"]
    bad_audit = HP.audit_identity_hashing()
    if bad_audit:
        ctx.inconclusive("hash perturbation premise broken: " + "; ".join(bad_audit))
        return
    quick = ctx.quick
    shared_decompiler(ctx)
    if quick:
        inputs = ["classes.dex", "Annotation_classes.dex"] + SMALL_DEX + ["gen:0:60", "crafted:flags"]
        groups = [inputs]
    else:
        inputs = ["classes.dex", "Annotation_classes.dex"] + SMALL_DEX + THOROUGH_APKS + ["gen:0:400", "gen:1:400", "crafted:flags"]
        groups = [["classes.dex"], ["Annotation_classes.dex"], SMALL_DEX + THOROUGH_APKS[:3], THOROUGH_APKS[3:] + ["gen:0:400", "gen:1:400", "crafted:flags"]]
    cfgs = child_configs(quick)
    args = []
    for gi, g in enumerate(groups):
        for c in cfgs:
            a = dict(c)
            a["inputs"] = g
            a["quick"] = quick
            a["label"] = c["label"]
            a["group"] = gi
            args.append(a)
    res = ctx.run_shards(MOD, "child", args, timeout=1800, env=lambda a: {"PYTHONHASHSEED": a["hashseed"]})
    # merge per group
    per_key = {}
    nchildren = {}
    nontrivial = set()
    for a, r in zip(args, res):
        if r is None:
            continue
        for label, ks in r.get("extra", {}).get("nontrivial", {}).items():
            nontrivial.update(ks)
        for label, hs in r.get("extra", {}).get("hashes", {}).items():
            nchildren[a["group"]] = nchildren.get(a["group"], 0) + 1
            for k, h in hs.items():
                per_key.setdefault(k, {}).setdefault(h, []).append(label)
    ctx.extra.pop("hashes", None)
    ctx.extra.pop("nontrivial", None)
    differing = {}
    for k, byhash in per_key.items():
        n = sum(len(v) for v in byhash.values())
        ctx.ev()
        ctx.count("keys_compared")
        if n >= 2:
            ctx.count("keys_seen_by_>=2_children")
        if len(byhash) > 1:
            differing[k] = byhash
        if k in nontrivial:
            ctx.sig(k)
            ctx.count("methods_iterating_a_set_of_>=2_nodes")
    ctx.count("children", len([r for r in res if r is not None]))
    ctx.sample({"inputs": inputs, "children": [c["label"] for c in cfgs], "keys": len(per_key), "differing": sorted(differing)[:10]})
    if differing:
        method_keys = [k for k in differing if not k.endswith("(class source)")]
        targets = {}
        for k in method_keys:
            name, rest = k.split("|", 1)
            targets.setdefault(name, set()).add(rest.split("->")[0])
        iso = {}
        variants = {}
        if method_keys:
            ia = {"inputs": sorted({k.split("|")[0].split("!")[0] for k in method_keys}), "quick": quick, "keys": method_keys,
                  "targets": {n: sorted(v) for n, v in targets.items()}, "seeds": list(range(12 if quick else 30))}
            ires = ctx.run_shards(MOD, "isolate", [ia], timeout=1800, env={"PYTHONHASHSEED": "0"})
            if ires and ires[0]:
                iso = ires[0].get("extra", {}).get("isolation", {})
                variants = ires[0].get("extra", {}).get("variants", {})
            ctx.extra.pop("isolation", None)
            ctx.extra.pop("variants", None)
        for k, byhash in sorted(differing.items()):
            trigger = classify_trigger(byhash, cfgs)
            base = k.replace(" (class source)", "")
            info = iso.get(base) or next((iso[m] for m in iso if k.endswith("(class source)") and m.startswith(k.split(" (class")[0].split("|")[0]) and
                                          m.split("|")[1].split("->")[0] == k.split("|")[1].split(" (class")[0]), None)
            mech = "nondeterministic-output-" + trigger
            why = None
            if info and info.get("None", 1) > 1:
                fixed_by = [s for s in HP.SITES if info.get(s) == 1]
                if fixed_by:
                    # SITES lists the consuming site before the container it iterates (compute_end before Interval.content): name the first
                    mech = "nondeterministic-output-set-iteration-in-" + fixed_by[0].replace(" ", "")
                    why = "stable under hash perturbation once %s is made deterministic; %d variants otherwise" % (fixed_by, info["None"])
                elif info.get("ALL") == 1:
                    mech = "nondeterministic-output-set-iteration-several-sites"
                    why = "needs more than one site fixed: %s" % info
                else:
                    why = "not isolated by the known sites: %s" % info
            elif info:
                why = "isolation child saw a single variant under perturbation: %s" % info
            ctx.violation(mech, "the same %s decompiles to different source text in different runs" % ("class" if k.endswith("(class source)") else "method"),
                          {"key": k, "children_by_source_hash": byhash, "trigger": trigger, "isolation": info, "isolation_note": why,
                           "variants": variants.get(base)})
    ctx.require_counter("children", len(args))
    ctx.require_counter("keys_seen_by_>=2_children", 100)
    ctx.require_counter("methods_with_source_from_a_shared_decompiler", 60)
    ctx.require_counter("perturbed_objects_hashed", 1000)
    ctx.require_counter("site Interval.compute_end:set>=2", 10)
    ctx.min_distinct = 100
