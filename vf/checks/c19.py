"""C19 reverse post-order"""
from vf.checks import graphwork


def run(ctx):
    graphwork.run(ctx, "C19")
