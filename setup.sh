#!/bin/bash
# offline setup: contracts library beside the repository's interpreter (git-ignored .deps)
cd "$(dirname "${BASH_SOURCE[0]}")"
if [ ! -d .deps/icontract ]; then
  PIP_NO_INDEX=1 /venv/bin/pip install -q --no-index --find-links /opt/veriftools/wheels --target .deps icontract 2>&1 | tail -2 || true
fi
mkdir -p evidence
/venv/bin/python -c "import androguard; print('androguard from', androguard.__file__)"
exit 0
